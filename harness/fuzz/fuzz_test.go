//go:build verif

// Package fuzz holds the coverage-guided fuzz target used by the thorough tier of C08.
package fuzz

import (
	"encoding/json"
	"testing"

	"github.com/privacybydesign/gabi"
	"github.com/privacybydesign/gabi/big"
	"github.com/privacybydesign/gabi/gabikeys"
	"github.com/privacybydesign/gabi/rangeproof"

	"verifharness/world"
)

var (
	ctx   = big.NewInt(1)
	nonce = big.NewInt(1)
)

func seeds(f *testing.F) *gabikeys.PublicKey {
	key := world.Fixture("toy256a")
	secret := big.NewInt(123456789)
	mk := func(nonrev, rp, withU bool) {
		ms := []*big.Int{secret, big.NewInt(1001), big.NewInt(44), big.NewInt(987654321)}
		var cred *world.Cred
		var err error
		if nonrev {
			rev, e2 := world.NewRev(key)
			if e2 != nil {
				f.Fatal(e2)
			}
			cred, err = key.SignCredRev(ms, rev)
		} else {
			cred, err = key.SignCred(ms)
		}
		if err != nil {
			f.Fatal(err)
		}
		var stm map[int][]*rangeproof.Statement
		if rp {
			st, _ := rangeproof.NewStatement(rangeproof.GreaterOrEqual, big.NewInt(18))
			stm = map[int][]*rangeproof.Statement{2: {st}}
		}
		b, err := cred.C.CreateDisclosureProofBuilder([]int{1}, stm, nonrev)
		if err != nil {
			f.Fatal(err)
		}
		builders := gabi.ProofBuilderList{b}
		if withU {
			cb, err := gabi.NewCredentialBuilder(key.PK, ctx, secret, big.NewInt(5), nil, []int{1})
			if err != nil {
				f.Fatal(err)
			}
			builders = append(builders, cb)
		}
		list, err := builders.BuildProofList(ctx, nonce, false)
		if err != nil {
			f.Fatal(err)
		}
		doc, err := json.Marshal(list)
		if err != nil {
			f.Fatal(err)
		}
		f.Add(doc)
	}
	mk(false, false, false)
	mk(true, false, false)
	mk(false, true, true)
	mk(true, true, true)
	f.Add([]byte(`[{"A":"AQ==","c":"AQ==","e_response":"AQ==","v_response":"AQ==","a_responses":{"0":"AQ=="}}]`))
	f.Add([]byte(`[{"U":"AQ==","c":"AQ==","v_prime_response":"AQ==","s_response":"AQ=="}]`))
	return key.PK
}

// FuzzProofList: any decodable document must get a verdict from every verification entry point without a panic.
func FuzzProofList(f *testing.F) {
	pk := seeds(f)
	f.Fuzz(func(t *testing.T, doc []byte) {
		var pl gabi.ProofList
		if json.Unmarshal(doc, &pl) != nil {
			return
		}
		var msg gabi.IssueCommitmentMessage
		_ = json.Unmarshal([]byte(`{"n_2":"AQ==","combinedProofs":`+string(doc)+`}`), &msg)
		keys := make([]*gabikeys.PublicKey, len(pl))
		for i := range keys {
			keys[i] = pk
		}
		pl.Verify(keys, ctx, nonce, false, nil)
		var again gabi.ProofList
		if json.Unmarshal(doc, &again) != nil {
			return
		}
		for _, p := range again {
			switch x := p.(type) {
			case *gabi.ProofD:
				x.Verify(pk, ctx, nonce, false)
			case *gabi.ProofU:
				x.Verify(pk, ctx, nonce)
			}
		}
	})
}
