package refimpl

import (
	"github.com/privacybydesign/gabi/big"
	"github.com/privacybydesign/gabi/gabikeys"
	"github.com/privacybydesign/gabi/revocation"
)

// NRProver is an independent prover for the non-revocation relation u^e = nu, written from the
// protocol equations. It does not refuse false statements, so it can be used adversarially.
type NRProver struct {
	PK       *gabikeys.PublicKey
	U, E, Nu *big.Int
	SAcc     *revocation.SignedAccumulator
	R2, R3   *big.Int
	Rand     map[string]*big.Int // alpha, beta, delta, epsilon, zeta
	// ForceC, if set, replaces C_r and C_u by this value (0 or N: not a group element)
	ForceC *big.Int
	// ForceCr / ForceCu replace one commitment alone
	ForceCr, ForceCu *big.Int
	cr, cu           *big.Int
}

// NewNRProver draws honest randomness. alphaRand is the randomiser shared with the credential proof.
func NewNRProver(pk *gabikeys.PublicKey, u, e, nu *big.Int, sacc *revocation.SignedAccumulator, alphaRand *big.Int) *NRProver {
	nDiv4 := new(big.Int).Div(pk.N, big.NewInt(4))
	twoZk := new(big.Int).Lsh(one, 256+128)
	b := new(big.Int).Lsh(one, 195)
	nDiv4twoZk := new(big.Int).Mul(nDiv4, twoZk)
	nbDiv4twoZk := new(big.Int).Mul(nDiv4twoZk, b)
	p := &NRProver{PK: pk, U: u, E: e, Nu: nu, SAcc: sacc, R2: RandBelow(nDiv4), R3: RandBelow(nDiv4)}
	p.Rand = map[string]*big.Int{
		"alpha": alphaRand, "beta": RandBelow(nbDiv4twoZk), "delta": RandBelow(nbDiv4twoZk),
		"epsilon": RandBelow(nDiv4twoZk), "zeta": RandBelow(nDiv4twoZk),
	}
	return p
}

func mulmod(n *big.Int, xs ...*big.Int) *big.Int {
	r := big.NewInt(1)
	for _, x := range xs {
		r.Mul(r, x).Mod(r, n)
	}
	return r
}

// Commit returns the six challenge contributions (C_r, C_u, nu, t_cr, t_nu, t_one).
func (p *NRProver) Commit() []*big.Int {
	n := p.PK.N
	g, h := p.PK.G, p.PK.H
	p.cr = mulmod(n, new(big.Int).Exp(g, p.R2, n), new(big.Int).Exp(h, p.R3, n))
	p.cu = mulmod(n, p.U, new(big.Int).Exp(h, p.R2, n))
	if p.ForceC != nil {
		p.cr, p.cu = new(big.Int).Set(p.ForceC), new(big.Int).Set(p.ForceC)
		if new(big.Int).Mod(p.ForceC, n).Sign() == 0 {
			z := func() *big.Int { return big.NewInt(0) }
			return []*big.Int{p.cr, p.cu, p.Nu, z(), z(), z()}
		}
	}
	// one commitment alone replaced by a value that is 0 mod n: the relations in which it is a base collapse to 0 on the
	// verifier's side (the prover puts 0 into those slots), the others are proved honestly
	if p.ForceCr != nil {
		p.cr = new(big.Int).Set(p.ForceCr)
	}
	if p.ForceCu != nil {
		p.cu = new(big.Int).Set(p.ForceCu)
	}
	neg := func(x *big.Int) *big.Int { return new(big.Int).Neg(x) }
	tcr := mulmod(n, PowSigned(g, p.Rand["epsilon"], n), PowSigned(h, p.Rand["zeta"], n))
	tnu := mulmod(n, PowSigned(p.cu, p.Rand["alpha"], n), PowSigned(h, neg(p.Rand["beta"]), n))
	tone := mulmod(n, PowSigned(p.cr, p.Rand["alpha"], n), PowSigned(g, neg(p.Rand["beta"]), n), PowSigned(h, neg(p.Rand["delta"]), n))
	if p.ForceCr != nil && new(big.Int).Mod(p.cr, n).Sign() == 0 {
		tcr, tone = big.NewInt(0), big.NewInt(0)
	}
	if p.ForceCu != nil && new(big.Int).Mod(p.cu, n).Sign() == 0 {
		tnu = big.NewInt(0)
	}
	return []*big.Int{p.cr, p.cu, p.Nu, tcr, tnu, tone}
}

// Respond builds the transmitted proof (alpha is not transmitted: the verifier takes it from the credential proof).
func (p *NRProver) Respond(c *big.Int) *revocation.Proof {
	sec := map[string]*big.Int{
		"beta": new(big.Int).Mul(p.E, p.R2), "delta": new(big.Int).Mul(p.E, p.R3), "epsilon": p.R2, "zeta": p.R3,
	}
	resp := map[string]*big.Int{}
	for name, s := range sec {
		resp[name] = new(big.Int).Add(p.Rand[name], new(big.Int).Mul(c, s))
	}
	return &revocation.Proof{Cr: new(big.Int).Set(p.cr), Cu: new(big.Int).Set(p.cu), Responses: resp,
		SignedAccumulator: &revocation.SignedAccumulator{Data: append([]byte{}, p.SAcc.Data...), PKCounter: p.SAcc.PKCounter}}
}

// AlphaResponse is the response the credential proof must carry at the revocation attribute.
func (p *NRProver) AlphaResponse(c *big.Int) *big.Int {
	return new(big.Int).Add(p.Rand["alpha"], new(big.Int).Mul(c, p.E))
}

// NewAlphaRandomizer draws the randomiser of the revocation attribute like the library does.
func NewAlphaRandomizer() *big.Int {
	return RandBelow(new(big.Int).Lsh(one, 195+256+128))
}
