// Package refimpl contains independent reference implementations used as oracles.
package refimpl

import (
	"crypto/sha256"
	gobig "math/big"

	"github.com/privacybydesign/gabi/big"
)

// derLen encodes a DER length.
func derLen(n int) []byte {
	if n < 128 {
		return []byte{byte(n)}
	}
	var tmp []byte
	for v := n; v > 0; v >>= 8 {
		tmp = append([]byte{byte(v)}, tmp...)
	}
	return append([]byte{0x80 | byte(len(tmp))}, tmp...)
}

// derInt encodes an INTEGER (minimal two's complement), written from the definition.
func derInt(v *gobig.Int) []byte {
	var content []byte
	switch v.Sign() {
	case 0:
		content = []byte{0}
	case 1:
		content = v.Bytes()
		if content[0]&0x80 != 0 {
			content = append([]byte{0}, content...)
		}
	default:
		// two's complement of |v| on the minimal number of bytes
		abs := new(gobig.Int).Neg(v)
		n := (abs.BitLen() + 7) / 8
		if n == 0 {
			n = 1
		}
		for {
			mod := new(gobig.Int).Lsh(gobig.NewInt(1), uint(8*n))
			tc := new(gobig.Int).Sub(mod, abs)
			b := tc.Bytes()
			for len(b) < n {
				b = append([]byte{0}, b...)
			}
			if len(b) == n && b[0]&0x80 != 0 {
				content = b
				break
			}
			n++
		}
		// minimality: drop leading 0xff while next byte has its top bit set
		for len(content) > 1 && content[0] == 0xff && content[1]&0x80 != 0 {
			content = content[1:]
		}
	}
	out := append([]byte{0x02}, derLen(len(content))...)
	return append(out, content...)
}

// DERSequence returns the DER encoding SEQUENCE{ [BOOLEAN TRUE,] INTEGER count, INTEGER v... }.
func DERSequence(values []*gobig.Int, issig bool) []byte {
	var body []byte
	if issig {
		body = append(body, 0x01, 0x01, 0xff)
	}
	body = append(body, derInt(gobig.NewInt(int64(len(values))))...)
	for _, v := range values {
		body = append(body, derInt(v)...)
	}
	out := append([]byte{0x30}, derLen(len(body))...)
	return append(out, body...)
}

// HashCommit is the reference Fiat-Shamir hash.
func HashCommit(values []*big.Int, issig bool) *big.Int {
	gv := make([]*gobig.Int, len(values))
	for i, v := range values {
		gv[i] = v.Go()
	}
	h := sha256.Sum256(DERSequence(gv, issig))
	return new(big.Int).SetBytes(h[:])
}

// GetHashNumber is the reference hash-to-number expansion.
func GetHashNumber(a, b *big.Int, index int, bitlen uint) *big.Int {
	res := new(big.Int)
	for k, ctr := uint(0), int64(0); k < bitlen; k, ctr = k+256, ctr+1 {
		var in []*big.Int
		if a != nil {
			in = append(in, a)
		}
		if b != nil {
			in = append(in, b)
		}
		in = append(in, big.NewInt(int64(index)), big.NewInt(ctr))
		cur := HashCommit(in, false)
		res.Add(res, cur.Lsh(cur, k))
	}
	return res
}

// IntHash is SHA-256 of the bytes read as an unsigned integer.
func IntHash(b []byte) *big.Int {
	h := sha256.Sum256(b)
	return new(big.Int).SetBytes(h[:])
}

// Norm applies the oversized-attribute hashing rule.
func Norm(v *big.Int, lm uint) *big.Int {
	if v.BitLen() > int(lm) {
		return IntHash(v.Bytes())
	}
	return v
}
