package refimpl

import (
	"github.com/privacybydesign/gabi/big"
	"github.com/privacybydesign/gabi/gabikeys"
	"github.com/privacybydesign/gabi/rangeproof"
)

// RangeProver is an independent prover for the range-proof relations, written from the equations
//
//	C_i = R^(d_i) S^(v_i),   R^(exp) = S^(-v5) R^(-a*sign*m) prod C_i^(d_i),   exp = -k (sign=1) | k (otherwise)
//
// It proves whatever it is given (no truth check), with every descriptor field free.
type RangeProver struct {
	PK    *gabikeys.PublicKey
	Index int
	M     *big.Int // exponent claimed for base R_index
	MRand *big.Int // randomiser shared with the credential proof
	Sign  int
	A     uint
	K     *big.Int
	Ld    uint
	D     []*big.Int
	V     []*big.Int // optional: hiders v_i chosen by the (cheating) prover; default random Lm-bit values
	// ForceC, if set, replaces every commitment C_i by this value (e.g. 0 or N: not a group element)
	ForceC *big.Int
	// ForceCOnly, if >= 0 together with ForceC, replaces only the commitment at that position (the others stay honest)
	ForceCOnly *int
	// DRandZero: the randomisers of the d responses are 0 (with negative roots the responses are then negative)
	DRandZero bool
	// V5Abs: v5 = sum |d_i| v_i instead of sum d_i v_i (a prover betting on a verifier that drops the sign of an exponent)
	V5Abs bool
	// OwnMResponse: the returned proof carries its own response for m (MRand + c*M) instead of leaving it to the verifier
	OwnMResponse bool

	v, dRand, vRand []*big.Int
	v5, v5Rand      *big.Int
	c               []*big.Int
}

// Commit returns the challenge contributions (mCorrect, then one per C_i).
func (p *RangeProver) Commit() []*big.Int {
	pk, n := p.PK, p.PK.N
	R := pk.R[p.Index]
	k := len(p.D)
	p.v, p.dRand, p.vRand, p.c = make([]*big.Int, k), make([]*big.Int, k), make([]*big.Int, k), make([]*big.Int, k)
	p.v5 = big.NewInt(0)
	for i := range p.D {
		p.v[i] = RandBits(pk.Params.Lm)
		if i < len(p.V) && p.V[i] != nil {
			p.v[i] = p.V[i]
		}
		p.dRand[i] = RandBits(p.Ld + pk.Params.Lh + pk.Params.Lstatzk)
		if p.DRandZero {
			p.dRand[i] = big.NewInt(0)
		}
		p.vRand[i] = RandBits(pk.Params.Lm + pk.Params.Lh + pk.Params.Lstatzk)
		if p.V5Abs {
			p.v5.Add(p.v5, new(big.Int).Mul(new(big.Int).Abs(p.D[i]), p.v[i]))
		} else {
			p.v5.Add(p.v5, new(big.Int).Mul(p.D[i], p.v[i]))
		}
		p.c[i] = mulmod(n, PowSigned(R, p.D[i], n), PowSigned(pk.S, p.v[i], n))
		if p.ForceC != nil && (p.ForceCOnly == nil || *p.ForceCOnly == i) {
			p.c[i] = new(big.Int).Set(p.ForceC)
		}
	}
	p.v5Rand = RandBits(pk.Params.Lm + p.Ld + 2 + pk.Params.Lh + pk.Params.Lstatzk)
	// power of R_index^m in mCorrect, with true integer arithmetic
	pow := new(big.Int).Mul(new(big.Int).SetUint64(uint64(p.A)), big.NewInt(int64(p.Sign)))
	pow.Neg(pow)
	t := mulmod(n, PowSigned(pk.S, new(big.Int).Neg(p.v5Rand), n), PowSigned(R, new(big.Int).Mul(pow, p.MRand), n))
	for i := range p.D {
		t = mulmod(n, t, PowSigned(p.c[i], p.dRand[i], n))
	}
	out := []*big.Int{t}
	for i := range p.D {
		out = append(out, mulmod(n, PowSigned(R, p.dRand[i], n), PowSigned(pk.S, p.vRand[i], n)))
	}
	prefix := []*big.Int{big.NewInt(int64(p.Sign)), new(big.Int).SetUint64(uint64(p.A)), new(big.Int).Set(p.K)}
	for i := range p.D {
		prefix = append(prefix, new(big.Int).Set(p.c[i]))
	}
	if p.ForceC != nil && new(big.Int).GCD(nil, nil, p.ForceC, n).Cmp(one) != 0 && new(big.Int).Mod(p.ForceC, n).Sign() == 0 {
		// C_i = 0 mod N: whatever the responses are, a verifier that multiplies C_i into its reconstruction gets 0 everywhere
		// (with one position alone: in the relation for m, which multiplies all C_i, and in that position's own relation)
		for i := range out {
			if p.ForceCOnly == nil || i == 0 || i == *p.ForceCOnly+1 {
				out[i] = big.NewInt(0)
			}
		}
	}
	// the statement and the C_i are covered by the challenge (they come first), then the Schnorr commitments
	return append(prefix, out...)
}

// Respond builds the proof for challenge c.
func (p *RangeProver) Respond(c *big.Int) *rangeproof.Proof {
	out := &rangeproof.Proof{Ld: p.Ld, Sign: p.Sign, A: p.A, K: new(big.Int).Set(p.K),
		V5Response: new(big.Int).Add(p.v5Rand, new(big.Int).Mul(c, p.v5))}
	for i := range p.D {
		out.Cs = append(out.Cs, new(big.Int).Set(p.c[i]))
		out.DResponses = append(out.DResponses, new(big.Int).Add(p.dRand[i], new(big.Int).Mul(c, p.D[i])))
		out.VResponses = append(out.VResponses, new(big.Int).Add(p.vRand[i], new(big.Int).Mul(c, p.v[i])))
	}
	if p.OwnMResponse {
		out.MResponse = new(big.Int).Add(p.MRand, new(big.Int).Mul(c, p.M))
	}
	return out
}

// FourSquares splits n >= 0 into four squares by brute force / descent (small n) — independent of the library.
func FourSquares(n *big.Int) []*big.Int {
	if n.Sign() < 0 {
		return nil
	}
	if n.BitLen() > 40 {
		return nil
	}
	N := n.Int64()
	isq := func(x int64) int64 {
		r := new(big.Int).Sqrt(big.NewInt(x)).Int64()
		return r
	}
	for a := isq(N); a >= 0; a-- {
		ra := N - a*a
		for b := isq(ra); b >= 0; b-- {
			rb := ra - b*b
			for c := isq(rb); c >= 0; c-- {
				rc := rb - c*c
				d := isq(rc)
				if d*d == rc {
					return []*big.Int{big.NewInt(a), big.NewInt(b), big.NewInt(c), big.NewInt(d)}
				}
				if c*c*2 < rb {
					break
				}
			}
			if b*b*3 < ra {
				break
			}
		}
	}
	return nil
}
