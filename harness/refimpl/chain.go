package refimpl

import (
	"bytes"
	"crypto/ecdsa"
	"crypto/sha256"
	"encoding/asn1"
	"encoding/binary"
	"errors"
	gobig "math/big"

	"github.com/fxamacker/cbor"
	"github.com/privacybydesign/gabi/gabikeys"
	"github.com/privacybydesign/gabi/revocation"
)

// EventHashRef computes the multihash (sha2-256: 0x12 0x20 || digest) of an event from the definition.
func EventHashRef(e *revocation.Event) []byte {
	buf := make([]byte, 8)
	binary.BigEndian.PutUint64(buf, e.Index)
	buf = append(buf, e.ParentHash...)
	buf = append(buf, e.E.Bytes()...)
	d := sha256.Sum256(buf)
	return append([]byte{0x12, 0x20}, d[:]...)
}

type sigTuple struct {
	Msg, Sig []byte
}

// AccFromSigned verifies the ECDSA signature over the CBOR message with crypto/ecdsa directly and decodes the accumulator.
func AccFromSigned(pk *gabikeys.PublicKey, data []byte, counter uint) (*revocation.Accumulator, error) {
	if pk.ECDSA == nil {
		return nil, errors.New("no ecdsa key")
	}
	if counter != pk.Counter {
		return nil, errors.New("key counter mismatch")
	}
	var t sigTuple
	if err := cbor.Unmarshal(data, &t); err != nil {
		return nil, err
	}
	var sig struct{ R, S *gobig.Int }
	rest, err := asn1.Unmarshal(t.Sig, &sig)
	if err != nil || len(rest) != 0 {
		return nil, errors.New("bad signature encoding")
	}
	h := sha256.Sum256(t.Msg)
	if !ecdsa.Verify(pk.ECDSA, h[:], sig.R, sig.S) {
		return nil, errors.New("bad signature")
	}
	acc := &revocation.Accumulator{}
	if err := cbor.Unmarshal(t.Msg, acc); err != nil {
		return nil, err
	}
	return acc, nil
}

// ChainAuthentic decides whether events form a gap-free, correctly indexed hash chain ending in tailHash.
func ChainAuthentic(events []*revocation.Event, tailHash []byte) error {
	if len(events) == 0 {
		return nil
	}
	for i, e := range events {
		if e == nil || e.E == nil {
			return errors.New("missing event")
		}
		if e.Index != events[0].Index+uint64(i) {
			return errors.New("wrong index")
		}
		if i > 0 && !bytes.Equal(EventHashRef(events[i-1]), e.ParentHash) {
			return errors.New("wrong parent hash")
		}
	}
	if !bytes.Equal(EventHashRef(events[len(events)-1]), tailHash) {
		return errors.New("tail hash differs from the signed event hash")
	}
	return nil
}

// UpdateAuthentic is the reference verdict for an update message as received.
func UpdateAuthentic(pk *gabikeys.PublicKey, sacc *revocation.SignedAccumulator, events []*revocation.Event) (*revocation.Accumulator, error) {
	if sacc == nil {
		return nil, errors.New("no accumulator")
	}
	acc, err := AccFromSigned(pk, sacc.Data, sacc.PKCounter)
	if err != nil {
		return nil, err
	}
	if err := ChainAuthentic(events, acc.EventHash); err != nil {
		return nil, err
	}
	return acc, nil
}
