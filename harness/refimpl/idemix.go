package refimpl

import (
	"crypto/rand"

	"github.com/privacybydesign/gabi"
	"github.com/privacybydesign/gabi/big"
	"github.com/privacybydesign/gabi/gabikeys"
)

var one = big.NewInt(1)

// RandBits returns a uniform value in [0, 2^bits).
func RandBits(bits uint) *big.Int {
	v, err := big.RandInt(rand.Reader, new(big.Int).Lsh(one, bits))
	if err != nil {
		panic(err)
	}
	return v
}

// RandBelow returns a uniform value in [0, n).
func RandBelow(n *big.Int) *big.Int {
	v, err := big.RandInt(rand.Reader, n)
	if err != nil {
		panic(err)
	}
	return v
}

// PowSigned computes b^e mod n for possibly negative e (nil if b has no inverse).
func PowSigned(b, e, n *big.Int) *big.Int {
	if e.Sign() >= 0 {
		return new(big.Int).Exp(b, e, n)
	}
	inv := new(big.Int).ModInverse(b, n)
	if inv == nil {
		return nil
	}
	return inv.Exp(inv, new(big.Int).Neg(e), n)
}

// CLEquation reports whether Z == A^e * prod R_i^norm(m_i) * S^v [* kssP] (mod N).
func CLEquation(pk *gabikeys.PublicKey, A, e, v, kssP *big.Int, ms []*big.Int) bool {
	if len(ms) > len(pk.R) {
		return false
	}
	q := new(big.Int).Exp(A, e, pk.N)
	for i, m := range ms {
		q.Mul(q, new(big.Int).Exp(pk.R[i], Norm(m, pk.Params.Lm), pk.N)).Mod(q, pk.N)
	}
	sv := PowSigned(pk.S, v, pk.N)
	if sv == nil {
		return false
	}
	q.Mul(q, sv).Mod(q, pk.N)
	if kssP != nil {
		q.Mul(q, kssP).Mod(q, pk.N)
	}
	return q.Cmp(pk.Z) == 0
}

// EInRange reports whether e lies in [2^(le-1), 2^(le-1)+2^(le'-1)].
func EInRange(pk *gabikeys.PublicKey, e *big.Int) bool {
	lo := new(big.Int).Lsh(one, pk.Params.Le-1)
	hi := new(big.Int).Add(lo, new(big.Int).Lsh(one, pk.Params.LePrime-1))
	return e.Cmp(lo) >= 0 && e.Cmp(hi) <= 0
}

// CLValid is the reference verdict for a CL signature.
func CLValid(pk *gabikeys.PublicKey, sig *gabi.CLSignature, ms []*big.Int) bool {
	return EInRange(pk, sig.E) && sig.E.Go().ProbablyPrime(64) && CLEquation(pk, sig.A, sig.E, sig.V, sig.KeyshareP, ms)
}

// ---------------------------------------------------------------------------------------------
// Reference / adversarial prover for ProofD

// DProver builds a ProofD from first principles with a free structure.
type DProver struct {
	PK *gabikeys.PublicKey
	// the (unrandomised) signature known to the holder
	A, E, V *big.Int
	// RA randomises the signature: A' = A*S^RA, v' = V - E*RA
	RA *big.Int
	// Disclosed: index -> value reported as disclosed
	Disclosed map[int]*big.Int
	// Hidden: index -> exponent whose knowledge is proved for base R_index
	Hidden map[int]*big.Int
	// randomisers
	ECommit, VCommit *big.Int
	R                map[int]*big.Int
	// KssPcommit multiplies the commitment (keyshare participation), may be nil
	Pcommit *big.Int
	// Extra challenge contributions appended after (A', Z~)
	Extra []*big.Int

	aPrime, vPrime *big.Int
}

// NewDProver prepares an honest-randomness prover for the given structure.
func NewDProver(pk *gabikeys.PublicKey, sig *gabi.CLSignature, disclosed, hidden map[int]*big.Int) *DProver {
	p := &DProver{PK: pk, A: sig.A, E: sig.E, V: sig.V, Disclosed: disclosed, Hidden: hidden}
	p.RA = RandBits(pk.Params.LRA)
	p.ECommit = RandBits(pk.Params.LeCommit)
	p.VCommit = RandBits(pk.Params.LvCommit)
	p.R = map[int]*big.Int{}
	for i := range hidden {
		p.R[i] = RandBits(pk.Params.LmCommit)
	}
	return p
}

// Commit returns the challenge contributions (A', Z~, extra...).
func (p *DProver) Commit() []*big.Int {
	n := p.PK.N
	p.aPrime = new(big.Int).Mul(p.A, new(big.Int).Exp(p.PK.S, p.RA, n))
	p.aPrime.Mod(p.aPrime, n)
	p.vPrime = new(big.Int).Sub(p.V, new(big.Int).Mul(p.E, p.RA))
	z := new(big.Int).Exp(p.aPrime, p.ECommit, n)
	z.Mul(z, new(big.Int).Exp(p.PK.S, p.VCommit, n)).Mod(z, n)
	for i, r := range p.R {
		z.Mul(z, new(big.Int).Exp(p.PK.R[i], r, n)).Mod(z, n)
	}
	if p.Pcommit != nil {
		z.Mul(z, p.Pcommit).Mod(z, n)
	}
	return append([]*big.Int{p.aPrime, z}, p.Extra...)
}

// Respond builds the proof for challenge c.
func (p *DProver) Respond(c *big.Int) *gabi.ProofD {
	ePrime := new(big.Int).Sub(p.E, new(big.Int).Lsh(one, p.PK.Params.Le-1))
	d := &gabi.ProofD{
		C:          new(big.Int).Set(c),
		A:          new(big.Int).Set(p.aPrime),
		EResponse:  new(big.Int).Add(p.ECommit, new(big.Int).Mul(c, ePrime)),
		VResponse:  new(big.Int).Add(p.VCommit, new(big.Int).Mul(c, p.vPrime)),
		AResponses: map[int]*big.Int{},
		ADisclosed: map[int]*big.Int{},
	}
	for i, m := range p.Hidden {
		d.AResponses[i] = new(big.Int).Add(p.R[i], new(big.Int).Mul(c, m))
	}
	for i, v := range p.Disclosed {
		d.ADisclosed[i] = new(big.Int).Set(v)
	}
	return d
}

// Challenge is the reference challenge over (context, contributions..., nonce).
func Challenge(context, nonce *big.Int, contributions []*big.Int, issig bool) *big.Int {
	in := append([]*big.Int{context}, contributions...)
	in = append(in, nonce)
	return HashCommit(in, issig)
}

// ProveD builds a stand-alone ProofD (single-proof session).
func (p *DProver) ProveD(context, nonce *big.Int, issig bool) *gabi.ProofD {
	return p.Respond(Challenge(context, nonce, p.Commit(), issig))
}

// ---------------------------------------------------------------------------------------------
// Reference / adversarial prover for ProofU

// UProver builds an issuance commitment proof with a free structure.
type UProver struct {
	PK     *gabikeys.PublicKey
	VPrime *big.Int
	// Exps: base index -> exponent committed to in U (index 0 = secret)
	Exps map[int]*big.Int
	// SSecret is the exponent reported through SResponse; the remainder Exps[0]-SSecret (if
	// non-zero or if ExtraR0 is set) is proved through MUserResponses[0].
	SSecret *big.Int
	ExtraR0 bool
	KssP    *big.Int

	// Override mode: MUserResponses[0] carries the complete response for base R_0 (SCommit + c*Exps[0]) and SResponse is a free
	// value STargetRand + c*STargetSecret, not covered by the commitment at all.
	Override                   bool
	STargetRand, STargetSecret *big.Int

	VPrimeCommit, SCommit *big.Int
	MCommit               map[int]*big.Int
	Pcommit               *big.Int
	U                     *big.Int
}

// NewUProver prepares an honest-randomness prover.
func NewUProver(pk *gabikeys.PublicKey, exps map[int]*big.Int, sCommit *big.Int) *UProver {
	p := &UProver{PK: pk, Exps: exps, SSecret: exps[0], SCommit: sCommit}
	p.VPrime = RandBits(pk.Params.LvPrime)
	p.VPrimeCommit = RandBits(pk.Params.LvPrimeCommit)
	if p.SCommit == nil {
		p.SCommit = RandBits(pk.Params.LsCommit)
	}
	p.MCommit = map[int]*big.Int{}
	for i := range exps {
		if i != 0 {
			p.MCommit[i] = RandBits(pk.Params.LmCommit)
		}
	}
	return p
}

// Commit returns (U, U~).
func (p *UProver) Commit() []*big.Int {
	n := p.PK.N
	u := new(big.Int).Exp(p.PK.S, p.VPrime, n)
	for i, m := range p.Exps {
		u.Mul(u, PowSigned(p.PK.R[i], m, n)).Mod(u, n)
	}
	if p.KssP != nil {
		u.Mul(u, p.KssP).Mod(u, n)
	}
	p.U = u
	uc := new(big.Int).Exp(p.PK.S, p.VPrimeCommit, n)
	uc.Mul(uc, new(big.Int).Exp(p.PK.R[0], p.SCommit, n)).Mod(uc, n)
	if p.ExtraR0 {
		if p.MCommit[0] == nil {
			p.MCommit[0] = RandBits(p.PK.Params.LmCommit)
		}
	}
	for i, r := range p.MCommit {
		uc.Mul(uc, new(big.Int).Exp(p.PK.R[i], r, n)).Mod(uc, n)
	}
	if p.Pcommit != nil {
		uc.Mul(uc, p.Pcommit).Mod(uc, n)
	}
	return []*big.Int{u, uc}
}

// Respond builds the proof.
func (p *UProver) Respond(c *big.Int) *gabi.ProofU {
	pr := &gabi.ProofU{
		U:              new(big.Int).Set(p.U),
		C:              new(big.Int).Set(c),
		VPrimeResponse: new(big.Int).Add(p.VPrimeCommit, new(big.Int).Mul(c, p.VPrime)),
		SResponse:      new(big.Int).Add(p.SCommit, new(big.Int).Mul(c, p.SSecret)),
		MUserResponses: map[int]*big.Int{},
	}
	for i, r := range p.MCommit {
		m := p.Exps[i]
		if i == 0 {
			m = new(big.Int).Sub(p.Exps[0], p.SSecret)
		}
		pr.MUserResponses[i] = new(big.Int).Add(r, new(big.Int).Mul(c, m))
	}
	if p.Override {
		pr.MUserResponses[0] = new(big.Int).Add(p.SCommit, new(big.Int).Mul(c, p.Exps[0]))
		pr.SResponse = new(big.Int).Add(p.STargetRand, new(big.Int).Mul(c, p.STargetSecret))
	}
	return pr
}

// ---------------------------------------------------------------------------------------------
// Reference verification equations (plain proofs, no sub-proofs)

// RefZTilde recomputes the commitment Z~ of a ProofD from the protocol definition.
func RefZTilde(pk *gabikeys.PublicKey, d *gabi.ProofD) *big.Int {
	n := pk.N
	num := new(big.Int).Exp(d.A, new(big.Int).Lsh(one, pk.Params.Le-1), n)
	for i, a := range d.ADisclosed {
		if i < 0 || i >= len(pk.R) {
			return nil
		}
		num.Mul(num, new(big.Int).Exp(pk.R[i], Norm(a, pk.Params.Lm), n)).Mod(num, n)
	}
	inv := new(big.Int).ModInverse(num, n)
	if inv == nil {
		return nil
	}
	known := new(big.Int).Mul(pk.Z, inv)
	known.Mod(known, n)
	z := PowSigned(known, new(big.Int).Neg(d.C), n)
	if z == nil {
		return nil
	}
	t := PowSigned(d.A, d.EResponse, n)
	s := PowSigned(pk.S, d.VResponse, n)
	if t == nil || s == nil {
		return nil
	}
	z.Mul(z, t).Mod(z, n)
	z.Mul(z, s).Mod(z, n)
	for i, r := range d.AResponses {
		if i < 0 || i >= len(pk.R) {
			return nil
		}
		x := PowSigned(pk.R[i], r, n)
		if x == nil {
			return nil
		}
		z.Mul(z, x).Mod(z, n)
	}
	return z
}

// RefUTilde recomputes the commitment U~ of a ProofU.
func RefUTilde(pk *gabikeys.PublicKey, p *gabi.ProofU) *big.Int {
	n := pk.N
	z := PowSigned(p.U, new(big.Int).Neg(p.C), n)
	s := PowSigned(pk.S, p.VPrimeResponse, n)
	r0 := PowSigned(pk.R[0], p.SResponse, n)
	if z == nil || s == nil || r0 == nil {
		return nil
	}
	z.Mul(z, s).Mod(z, n)
	z.Mul(z, r0).Mod(z, n)
	for i, r := range p.MUserResponses {
		if i < 0 || i >= len(pk.R) {
			return nil
		}
		x := PowSigned(pk.R[i], r, n)
		if x == nil {
			return nil
		}
		z.Mul(z, x).Mod(z, n)
	}
	return z
}

// RefVerifyU is the reference verdict for a stand-alone ProofU.
func RefVerifyU(pk *gabikeys.PublicKey, p *gabi.ProofU, context, nonce *big.Int) bool {
	if p.U == nil || p.C == nil || p.VPrimeResponse == nil || p.SResponse == nil {
		return false
	}
	max := new(big.Int).Lsh(one, pk.Params.LvPrimeCommit+1)
	if p.VPrimeResponse.Sign() < 0 || p.VPrimeResponse.Cmp(max) >= 0 {
		return false
	}
	ut := RefUTilde(pk, p)
	if ut == nil {
		return false
	}
	return Challenge(context, nonce, []*big.Int{p.U, ut}, false).Cmp(p.C) == 0
}

// RefVerifyS is the reference verdict for the issuer's proof of signature correctness.
func RefVerifyS(pk *gabikeys.PublicKey, ps *gabi.ProofS, sig *gabi.CLSignature, context, nonce *big.Int) bool {
	if ps == nil || ps.C == nil || ps.EResponse == nil || sig == nil || sig.A == nil || sig.E == nil {
		return false
	}
	n := pk.N
	q := new(big.Int).Exp(sig.A, sig.E, n)
	exp := new(big.Int).Add(ps.C, new(big.Int).Mul(ps.EResponse, sig.E))
	ac := PowSigned(sig.A, exp, n)
	if ac == nil {
		return false
	}
	return HashCommit([]*big.Int{context, q, sig.A, nonce, ac}, false).Cmp(ps.C) == 0
}

// ---------------------------------------------------------------------------------------------

// Prover is a two-move prover usable in a jointly challenged list.
type Prover interface {
	Commit() []*big.Int
	RespondProof(c *big.Int) gabi.Proof
}

func (p *DProver) RespondProof(c *big.Int) gabi.Proof { return p.Respond(c) }
func (p *UProver) RespondProof(c *big.Int) gabi.Proof { return p.Respond(c) }

// ProveList runs the provers under one reference challenge.
func ProveList(provers []Prover, context, nonce *big.Int, issig bool) (gabi.ProofList, *big.Int) {
	var contrib []*big.Int
	for _, p := range provers {
		contrib = append(contrib, p.Commit()...)
	}
	c := Challenge(context, nonce, contrib, issig)
	var out gabi.ProofList
	for _, p := range provers {
		out = append(out, p.RespondProof(c))
	}
	return out, c
}

// ---------------------------------------------------------------------------------------------
// Complete reference reconstruction of the challenge contributions of a ProofD (with optional
// non-revocation and range parts), written from the protocol equations.

// NonrevContributions recomputes (C_r, C_u, nu, t_cr, t_nu, t_one) from a transmitted non-revocation proof.
func NonrevContributions(pk *gabikeys.PublicKey, cr, cu, nu, c, alpha *big.Int, resp map[string]*big.Int) []*big.Int {
	n := pk.N
	negc := new(big.Int).Neg(c)
	neg := func(x *big.Int) *big.Int { return new(big.Int).Neg(x) }
	tcr := mulmod(n, PowSigned(cr, negc, n), PowSigned(pk.G, resp["epsilon"], n), PowSigned(pk.H, resp["zeta"], n))
	tnu := mulmod(n, PowSigned(nu, negc, n), PowSigned(cu, alpha, n), PowSigned(pk.H, neg(resp["beta"]), n))
	tone := mulmod(n, PowSigned(cr, alpha, n), PowSigned(pk.G, neg(resp["beta"]), n), PowSigned(pk.H, neg(resp["delta"]), n))
	return []*big.Int{cr, cu, nu, tcr, tnu, tone}
}

// RangeContributions recomputes (t_m, t_0..t_k) of one range proof attached to base index idx with hidden response mResp.
func RangeContributions(pk *gabikeys.PublicKey, idx int, sign int, a uint, k *big.Int, cs, ds, vs []*big.Int, v5, mResp, c *big.Int) []*big.Int {
	n := pk.N
	R := pk.R[idx]
	negc := new(big.Int).Neg(c)
	exp := new(big.Int).Set(k)
	if sign == 1 {
		exp.Neg(exp)
	}
	pow := new(big.Int).Mul(new(big.Int).SetUint64(uint64(a)), big.NewInt(int64(sign)))
	pow.Neg(pow)
	tm := mulmod(n, PowSigned(PowSigned(R, exp, n), negc, n), PowSigned(pk.S, new(big.Int).Neg(v5), n), PowSigned(R, new(big.Int).Mul(pow, mResp), n))
	for i := range cs {
		tm = mulmod(n, tm, PowSigned(cs[i], ds[i], n))
	}
	// the statement (sign, factor, bound) and the commitments C_i come first (covered by the challenge since fix 9.2/C12)
	out := []*big.Int{big.NewInt(int64(sign)), new(big.Int).SetUint64(uint64(a)), new(big.Int).Set(k)}
	out = append(out, cs...)
	out = append(out, tm)
	for i := range cs {
		out = append(out, mulmod(n, PowSigned(cs[i], negc, n), PowSigned(R, ds[i], n), PowSigned(pk.S, vs[i], n)))
	}
	return out
}
