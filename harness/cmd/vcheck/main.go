// vcheck runs one property check: vcheck <Cxx> <quick|thorough> | vcheck genfixtures
package main

import (
	"fmt"
	"os"
	"runtime/debug"

	"verifharness/mon"
	"verifharness/props"
	"verifharness/world"
)

func main() {
	if len(os.Args) >= 2 && os.Args[1] == "genfixtures" {
		if err := world.GenFixtures(); err != nil {
			fmt.Println("genfixtures:", err)
			os.Exit(2)
		}
		return
	}
	if len(os.Args) >= 3 && os.Args[1] == "c18child" {
		props.C18Child(os.Args[2])
		return
	}
	if len(os.Args) >= 7 && os.Args[1] == "c20child" {
		props.C20Child(os.Args[2:])
		return
	}
	if len(os.Args) < 3 {
		fmt.Println("usage: vcheck <Cxx> <quick|thorough|--replay file>")
		os.Exit(2)
	}
	id, tier := os.Args[1], os.Args[2]
	c := props.Registry[id]
	if c == nil {
		fmt.Printf("INCONCLUSIVE property=%s reason=no such check\n", id)
		os.Exit(3)
	}
	if tier == "--replay" {
		if c.Replay == nil || len(os.Args) < 4 {
			fmt.Printf("INCONCLUSIVE property=%s reason=replay not supported\n", id)
			os.Exit(3)
		}
		r := mon.New(id, c.Level, "quick")
		if err := c.Replay(r, os.Args[3]); err != nil {
			fmt.Printf("VIOLATION property=%s replay=%s\n  %v\n", id, os.Args[3], err)
			os.Exit(1)
		}
		fmt.Println("replay: case no longer fails")
		return
	}
	if tier != "quick" && tier != "thorough" {
		fmt.Println("tier must be quick or thorough")
		os.Exit(2)
	}
	r := mon.New(id, c.Level, tier)
	func() {
		defer func() {
			if e := recover(); e != nil {
				r.Inconclusive(fmt.Sprintf("harness panic: %v | %s", e, debug.Stack()))
			}
		}()
		c.Run(r)
	}()
	os.Exit(r.Finish(c.Rule))
}
