// vcheck runs one property check: vcheck <Cxx> <quick|thorough> | vcheck genfixtures
package main

import (
	"encoding/json"
	"fmt"
	"os"
	"runtime/debug"

	"verifharness/mon"
	"verifharness/props"
	"verifharness/world"
)

func main() {
	if len(os.Args) >= 2 && os.Args[1] == "genfixtures" {
		if err := world.GenFixtures(); err != nil {
			fmt.Println("genfixtures:", err)
			os.Exit(2)
		}
		return
	}
	if len(os.Args) >= 3 && os.Args[1] == "c18child" {
		props.C18Child(os.Args[2])
		return
	}
	if len(os.Args) >= 7 && os.Args[1] == "c20child" {
		props.C20Child(os.Args[2:])
		return
	}
	if len(os.Args) < 3 {
		fmt.Println("usage: vcheck <Cxx> <quick|thorough|--replay file>")
		os.Exit(2)
	}
	id, tier := os.Args[1], os.Args[2]
	c := props.Registry[id]
	if c == nil {
		fmt.Printf("INCONCLUSIVE property=%s reason=no such check\n", id)
		os.Exit(3)
	}
	if tier == "--replay" {
		if len(os.Args) < 4 {
			fmt.Println("usage: vcheck <Cxx> --replay <file>")
			os.Exit(2)
		}
		if c.Replay == nil {
			// generic replay: the case list is determined by (seed, tier); re-run that workload and look for the recorded signature
			os.Exit(genericReplay(id, c, os.Args[3]))
		}
		r := mon.New(id, c.Level, "quick")
		if err := c.Replay(r, os.Args[3]); err != nil {
			fmt.Printf("VIOLATION property=%s replay=%s\n  %v\n", id, os.Args[3], err)
			os.Exit(1)
		}
		fmt.Println("replay: case no longer fails")
		return
	}
	if tier != "quick" && tier != "thorough" {
		fmt.Println("tier must be quick or thorough")
		os.Exit(2)
	}
	r := mon.New(id, c.Level, tier)
	// a workload whose goroutines are all blocked for good, one of them inside the library, is a deadlock of the library (decided
	// by global quiescence, see mon.DeadlockMonitor); the C20 children run their own instance
	go mon.DeadlockMonitor(func(site, dump string) {
		r.Violation(id+"/deadlock@"+site, "every goroutine of the check is blocked for good, at least one of them inside the library ("+site+"); nothing left in the process can wake them", map[string]any{"goroutines": dump})
		os.Exit(r.Finish(c.Rule))
	})
	func() {
		defer func() {
			if e := recover(); e != nil {
				r.Inconclusive(fmt.Sprintf("harness panic: %v | %s", e, debug.Stack()))
			}
		}()
		c.Run(r)
	}()
	os.Exit(r.Finish(c.Rule))
}

func genericReplay(id string, c *props.Check, path string) int {
	b, err := os.ReadFile(path)
	if err != nil {
		fmt.Println("replay:", err)
		return 2
	}
	var rec struct {
		Signature string `json:"signature"`
		Message   string `json:"message"`
		Seed      int64  `json:"seed"`
		Tier      string `json:"tier"`
	}
	if err := json.Unmarshal(b, &rec); err != nil || rec.Signature == "" {
		fmt.Println("replay: not a replay file written by this harness")
		return 2
	}
	fmt.Printf("replay: recorded violation %s (seed %d, tier %s): %s\n", rec.Signature, rec.Seed, rec.Tier, rec.Message)
	fmt.Println("replay: the concrete failing case is in the \"case\" member of the file; re-running the workload of that seed and tier against the current tree")
	os.Setenv("VERIF_SEED", fmt.Sprint(rec.Seed))
	if rec.Tier == "" {
		rec.Tier = "quick"
	}
	r := mon.New(id, c.Level, rec.Tier)
	func() {
		defer func() { recover() }()
		c.Run(r)
	}()
	if r.HasViolation(rec.Signature) {
		fmt.Printf("VIOLATION property=%s replay=%s\n  reproduced: %s\n", id, path, rec.Signature)
		return 1
	}
	fmt.Println("replay: the recorded violation did not reappear on the current tree")
	return 0
}
