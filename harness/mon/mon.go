// Package mon holds the run-wide monitor state shared by all property checks:
// evidence counters, distinct-case accounting, samples, violation/finding
// bookkeeping, the panic guard and the deterministic case-list PRNG.
package mon

import (
	"encoding/json"
	"fmt"
	"hash/fnv"
	"math/rand/v2"
	"os"
	"path/filepath"
	"regexp"
	"runtime"
	"runtime/debug"
	"sort"
	"strconv"
	"strings"
	"sync"
	"sync/atomic"
	"time"
)

// Dir is the /verif directory (VERIF_DIR overrides).
func Dir() string {
	if d := os.Getenv("VERIF_DIR"); d != "" {
		return d
	}
	return "/verif"
}

type famCount struct {
	Accept, Reject, Error, Panic, Other int64
}

// Violation is one distinct refuting observation.
type Violation struct {
	Signature string `json:"signature"`
	Message   string `json:"message"`
	Count     int    `json:"count"`
	Replay    any    `json:"replay,omitempty"`
}

// Run is the per-invocation monitor.
type Run struct {
	Prop  string
	Tier  string
	Seed  int64
	Level string

	start time.Time
	evals atomic.Int64

	mu          sync.Mutex
	distinct    map[uint64]struct{}
	fams        map[string]*famCount
	samples     []any
	maxSamples  int
	violations  map[string]*Violation
	assumptions []string
	extra       map[string]any
	panics      map[string]int
	exhaustive  *bool
	inconcl     []string
	floors      []floor
}

type floor struct {
	name string
	min  int64
	get  func() int64
}

// New creates the monitor for one property run.
func New(prop, level, tier string) *Run {
	seed := int64(1)
	if s := os.Getenv("VERIF_SEED"); s != "" {
		if v, err := strconv.ParseInt(s, 10, 64); err == nil {
			seed = v
		}
	}
	return &Run{
		Prop: prop, Tier: tier, Seed: seed, Level: level, start: time.Now(),
		distinct: map[uint64]struct{}{}, fams: map[string]*famCount{}, maxSamples: 12,
		violations: map[string]*Violation{}, extra: map[string]any{}, panics: map[string]int{},
	}
}

// Thorough reports whether the deep tier was requested.
func (r *Run) Thorough() bool { return r.Tier == "thorough" }

// Pick returns q for the quick tier and t for the thorough tier.
func (r *Run) Pick(q, t int) int {
	if r.Thorough() {
		return t
	}
	return q
}

// Rand returns a PRNG determined by (VERIF_SEED, property, stream name).
func (r *Run) Rand(stream string) *rand.Rand {
	h := fnv.New64a()
	h.Write([]byte(r.Prop + "/" + stream))
	return rand.New(rand.NewPCG(uint64(r.Seed), h.Sum64()))
}

// Eval counts one deciding oracle evaluation in a family with an outcome
// ("accept", "reject", "error", "panic", anything else = other).
func (r *Run) Eval(family, outcome string) {
	r.evals.Add(1)
	r.mu.Lock()
	f := r.fams[family]
	if f == nil {
		f = &famCount{}
		r.fams[family] = f
	}
	switch outcome {
	case "accept":
		f.Accept++
	case "reject":
		f.Reject++
	case "error":
		f.Error++
	case "panic":
		f.Panic++
	default:
		f.Other++
	}
	r.mu.Unlock()
}

// Evals returns the number of oracle evaluations so far.
func (r *Run) Evals() int64 { return r.evals.Load() }

// FamTotal returns the number of evaluations in a family.
func (r *Run) FamTotal(family string) int64 {
	r.mu.Lock()
	defer r.mu.Unlock()
	f := r.fams[family]
	if f == nil {
		return 0
	}
	return f.Accept + f.Reject + f.Error + f.Panic + f.Other
}

// FamAccept returns the number of accepting evaluations in a family.
func (r *Run) FamAccept(family string) int64 {
	r.mu.Lock()
	defer r.mu.Unlock()
	if f := r.fams[family]; f != nil {
		return f.Accept
	}
	return 0
}

// Distinct registers a descriptor of a non-trivial case (hashed).
func (r *Run) Distinct(desc ...any) {
	h := fnv.New64a()
	fmt.Fprint(h, desc...)
	k := h.Sum64()
	r.mu.Lock()
	r.distinct[k] = struct{}{}
	r.mu.Unlock()
}

// DistinctCount returns the number of distinct non-trivial cases registered.
func (r *Run) DistinctCount() int {
	r.mu.Lock()
	defer r.mu.Unlock()
	return len(r.distinct)
}

// Sample records a concrete case for the evidence file (bounded).
func (r *Run) Sample(v any) {
	r.mu.Lock()
	if len(r.samples) < r.maxSamples {
		r.samples = append(r.samples, v)
	}
	r.mu.Unlock()
}

// Assume records an assumption / trusted-base statement.
func (r *Run) Assume(s string) {
	r.mu.Lock()
	for _, a := range r.assumptions {
		if a == s {
			r.mu.Unlock()
			return
		}
	}
	r.assumptions = append(r.assumptions, s)
	r.mu.Unlock()
}

// Set stores an extra coverage key.
func (r *Run) Set(key string, v any) {
	r.mu.Lock()
	r.extra[key] = v
	r.mu.Unlock()
}

// Add adds to an integer extra coverage key.
func (r *Run) Add(key string, n int64) {
	r.mu.Lock()
	cur, _ := r.extra[key].(int64)
	r.extra[key] = cur + n
	r.mu.Unlock()
}

// Get reads an integer extra coverage key.
func (r *Run) Get(key string) int64 {
	r.mu.Lock()
	defer r.mu.Unlock()
	cur, _ := r.extra[key].(int64)
	return cur
}

// Exhaustive marks whether the named finite sub-space was enumerated completely.
func (r *Run) Exhaustive(b bool) {
	r.mu.Lock()
	r.exhaustive = &b
	r.mu.Unlock()
}

// Inconclusive records a reason why no verdict can be given.
func (r *Run) Inconclusive(reason string) {
	r.mu.Lock()
	r.inconcl = append(r.inconcl, reason)
	r.mu.Unlock()
}

// Floor registers a non-vacuity floor: at Finish, value < min makes the run inconclusive.
func (r *Run) Floor(name string, min int64, get func() int64) {
	r.mu.Lock()
	r.floors = append(r.floors, floor{name, min, get})
	r.mu.Unlock()
}

// FloorFam requires a family to have at least min evaluations.
func (r *Run) FloorFam(family string, min int64) {
	r.Floor("family "+family, min, func() int64 { return r.FamTotal(family) })
}

// FloorAccept requires a family to have at least min accepting evaluations.
func (r *Run) FloorAccept(family string, min int64) {
	r.Floor("accepts in "+family, min, func() int64 { return r.FamAccept(family) })
}

// Violation records a refuting observation under a stable signature. The replay
// object must contain the concrete failing case.
func (r *Run) Violation(sig, msg string, replay any) {
	r.mu.Lock()
	v := r.violations[sig]
	if v == nil {
		v = &Violation{Signature: sig, Message: msg, Replay: replay}
		r.violations[sig] = v
	}
	v.Count++
	r.mu.Unlock()
}

// HasViolation reports whether a violation with this signature was recorded.
func (r *Run) HasViolation(sig string) bool {
	r.mu.Lock()
	defer r.mu.Unlock()
	_, ok := r.violations[sig]
	return ok
}

// ViolationCount returns the number of distinct violation signatures.
func (r *Run) ViolationCount() int {
	r.mu.Lock()
	defer r.mu.Unlock()
	return len(r.violations)
}

// PanicSeen records a panic at a call site (observation only).
func (r *Run) PanicSeen(site string) {
	r.mu.Lock()
	r.panics[site]++
	r.mu.Unlock()
}

// Try runs f under recover. It returns the panic value (nil if none) and a short stack.
func Try(f func()) (pv any, stack string) {
	defer func() {
		if e := recover(); e != nil {
			pv = e
			stack = shortStack(string(debug.Stack()))
		}
	}()
	f()
	return nil, ""
}

var addrRe = regexp.MustCompile(`0x[0-9a-f]+`)

func shortStack(s string) string {
	lines := strings.Split(s, "\n")
	var out []string
	for i := 0; i < len(lines); i++ {
		l := lines[i]
		if strings.HasPrefix(l, "panic") {
			out = append(out, strings.TrimSpace(l))
			continue
		}
		if strings.Contains(l, "github.com/privacybydesign/gabi") && i+1 < len(lines) {
			fn := strings.TrimSpace(addrRe.ReplaceAllString(l, ""))
			if k := strings.Index(fn, "("); k > 0 {
				fn = fn[:k]
			}
			file := strings.TrimSpace(lines[i+1])
			if k := strings.Index(file, " +0x"); k > 0 {
				file = file[:k]
			}
			out = append(out, fn+" @ "+file)
			i++
		}
		if len(out) >= 10 {
			break
		}
	}
	return strings.Join(out, " | ")
}

var siteRe = regexp.MustCompile(`@ .*?/([A-Za-z0-9_]+/)?([A-Za-z0-9_]+\.go):(\d+)`)

// PanicSite extracts the innermost gabi frame "pkgdir/file.go:line" from a short stack.
func PanicSite(stack string) string {
	for _, part := range strings.Split(stack, " | ") {
		if m := siteRe.FindStringSubmatch(part); m != nil {
			return m[1] + m[2] + ":" + m[3]
		}
	}
	return "unknown"
}

type knownFile struct {
	Findings []struct {
		Property  string `json:"property"`
		Signature string `json:"signature"`
		Status    string `json:"status"`
		Commit    string `json:"commit,omitempty"`
		What      string `json:"what"`
	} `json:"findings"`
}

func loadKnown(prop string) map[string]string {
	out := map[string]string{}
	b, err := os.ReadFile(filepath.Join(Dir(), "known_findings.json"))
	if err != nil {
		return out
	}
	var kf knownFile
	if json.Unmarshal(b, &kf) != nil {
		return out
	}
	for _, f := range kf.Findings {
		if f.Property == prop && f.Status == "known" {
			out[f.Signature] = f.What
		}
	}
	return out
}

var sanitize = regexp.MustCompile(`[^A-Za-z0-9_.-]+`)

// Finish writes the evidence file, prints KNOWN-FINDING / VIOLATION / INCONCLUSIVE
// lines and returns the process exit code (0 held, 1 violated, 3 inconclusive).
func (r *Run) Finish(rule string) int {
	// panics that escaped into a worker (calls the check makes without recover() because they are honest operations): with a
	// frame inside the library the honest operation itself crashed, which no property allows; otherwise the harness is at fault
	workerMu.Lock()
	wps := workerPanics
	workerMu.Unlock()
	for _, wp := range wps {
		if site := PanicSite(wp.stack); site != "unknown" {
			r.Violation(r.Prop+"/library-panics-in-honest-operation@"+site, "an operation the check performs as the honest party panicked inside the library: "+wp.value+" ["+wp.stack+"]", map[string]any{"panic": wp.value, "stack": wp.stack})
		} else {
			r.Inconclusive("a worker of the check panicked outside the library: " + wp.value + " [" + wp.stack + "]")
		}
	}
	r.mu.Lock()
	floors := r.floors
	r.mu.Unlock()
	for _, f := range floors {
		if v := f.get(); v < f.min {
			r.Inconclusive(fmt.Sprintf("floor %q not met: %d < %d", f.name, v, f.min))
		}
	}
	r.mu.Lock()
	defer r.mu.Unlock()

	known := loadKnown(r.Prop)
	sigs := make([]string, 0, len(r.violations))
	for s := range r.violations {
		sigs = append(sigs, s)
	}
	sort.Strings(sigs)
	newViol := 0
	knownSeen := []string{}
	// every listed finding is announced, with the number of times this run actually observed it
	ksigs := make([]string, 0, len(known))
	for s := range known {
		ksigs = append(ksigs, s)
	}
	sort.Strings(ksigs)
	for _, s := range ksigs {
		n := 0
		if v := r.violations[s]; v != nil {
			n = v.Count
			knownSeen = append(knownSeen, s)
		}
		fmt.Printf("KNOWN-FINDING: property=%s %s: %s (observed %d times this run)\n", r.Prop, s, known[s], n)
	}
	for _, s := range sigs {
		v := r.violations[s]
		if _, ok := known[s]; ok {
			continue
		}
		newViol++
		dir := filepath.Join(Dir(), "replays", r.Prop)
		_ = os.MkdirAll(dir, 0o755)
		path := filepath.Join(dir, sanitize.ReplaceAllString(s, "_")+".json")
		b, err := json.MarshalIndent(map[string]any{
			"property": r.Prop, "signature": s, "message": v.Message, "count": v.Count,
			"seed": r.Seed, "tier": r.Tier, "case": v.Replay,
		}, "", " ")
		if err != nil {
			b, _ = json.Marshal(map[string]any{"property": r.Prop, "signature": s, "message": v.Message, "marshal_error": err.Error()})
		}
		_ = os.WriteFile(path, b, 0o644)
		fmt.Printf("VIOLATION property=%s replay=%s\n", r.Prop, path)
		fmt.Printf("  signature=%s count=%d: %s\n", s, v.Count, v.Message)
	}

	fams := map[string]any{}
	for k, f := range r.fams {
		fams[k] = map[string]int64{"accept": f.Accept, "reject": f.Reject, "error": f.Error, "panic": f.Panic, "other": f.Other}
	}
	cov := map[string]any{
		"evaluations":         r.evals.Load(),
		"distinct_nontrivial": len(r.distinct),
		"rule":                rule,
		"samples":             r.samples,
		"families":            fams,
		"known_findings_seen": knownSeen,
	}
	if len(r.panics) > 0 {
		cov["panics_observed"] = r.panics
	}
	if r.exhaustive != nil {
		cov["exhaustive"] = *r.exhaustive
	}
	if len(r.inconcl) > 0 {
		cov["inconclusive"] = r.inconcl
	}
	for k, v := range r.extra {
		cov[k] = v
	}
	if len(r.samples) == 0 {
		cov["samples"] = []any{"(none recorded)"}
	}
	if r.assumptions == nil {
		r.assumptions = []string{"the harness' own reference code, math/big and crypto/* are trusted; fixture keys were generated by the library under test"}
	}
	ev := map[string]any{
		"property_id": r.Prop, "tier": r.Tier, "seed": r.Seed, "level": r.Level,
		"coverage": cov, "assumptions": r.assumptions,
		"wall_s":     time.Since(r.start).Seconds(),
		"violations": newViol,
	}
	b, err := json.MarshalIndent(ev, "", " ")
	if err != nil {
		fmt.Printf("INCONCLUSIVE property=%s reason=evidence marshal: %v\n", r.Prop, err)
		return 3
	}
	_ = os.MkdirAll(filepath.Join(Dir(), "evidence"), 0o755)
	if err := os.WriteFile(filepath.Join(Dir(), "evidence", r.Prop+".json"), b, 0o644); err != nil {
		fmt.Printf("INCONCLUSIVE property=%s reason=evidence write: %v\n", r.Prop, err)
		return 3
	}
	fmt.Printf("%s %s seed=%d: evaluations=%d distinct=%d violations=%d known=%d wall=%.1fs\n",
		r.Prop, r.Tier, r.Seed, r.evals.Load(), len(r.distinct), newViol, len(knownSeen), time.Since(r.start).Seconds())
	if newViol > 0 {
		return 1
	}
	if len(r.inconcl) > 0 {
		for _, s := range r.inconcl {
			fmt.Printf("INCONCLUSIVE property=%s reason=%s\n", r.Prop, s)
		}
		return 3
	}
	return 0
}

// Parallel runs f(i) for i in [0,n) on w workers.
func Parallel(n, w int, f func(i int)) {
	if w < 1 {
		w = 1
	}
	var wg sync.WaitGroup
	var next atomic.Int64
	for k := 0; k < w; k++ {
		wg.Add(1)
		go func() {
			defer wg.Done()
			for {
				i := int(next.Add(1) - 1)
				if i >= n {
					return
				}
				// a panic in a worker must not take the monitor down with everything it has observed: it is kept and
				// judged when the run finishes (see Finish)
				if pv, stack := Try(func() { f(i) }); pv != nil {
					workerMu.Lock()
					workerPanics = append(workerPanics, workerPanic{fmt.Sprint(pv), stack})
					workerMu.Unlock()
				}
			}
		}()
	}
	wg.Wait()
}

type workerPanic struct{ value, stack string }

var (
	workerMu     sync.Mutex
	workerPanics []workerPanic
)

var goHeader = regexp.MustCompile(`^goroutine (\d+) \[([^\],]+)`)

// DeadlockMonitor decides deadlock by global quiescence, not by a deadline: it samples the stacks of all goroutines and
// reports when, in three consecutive samples, (1) every goroutine that has a frame of the harness or of the library is in a
// blocked state (channel send/receive, select, semaphore/mutex/cond wait) with the same goroutine ids, states and innermost
// library frames, (2) at least one of them is blocked inside a library function, and (3) none is sleeping, running, runnable
// or in a system call. In that situation no goroutine of the workload can ever run again (the Go runtime's own detector stays
// silent only because this monitor's timer exists).
func DeadlockMonitor(report func(site, dump string)) {
	blocked := map[string]bool{"chan send": true, "chan receive": true, "select": true, "semacquire": true, "sync.Mutex.Lock": true,
		"sync.RWMutex.Lock": true, "sync.RWMutex.RLock": true, "sync.Cond.Wait": true, "sync.WaitGroup.Wait": true, "chan send (nil chan)": true, "chan receive (nil chan)": true, "select (no cases)": true}
	last, same := "", 0
	buf := make([]byte, 8<<20)
	for {
		time.Sleep(5 * time.Second)
		n := runtime.Stack(buf, true)
		var sig []string
		quiescent, site := true, ""
		for _, g := range strings.Split(string(buf[:n]), "\n\n") {
			m := goHeader.FindStringSubmatch(g)
			if m == nil || strings.Contains(g, "DeadlockMonitor") {
				continue
			}
			if !strings.Contains(g, "verifharness/") && !strings.Contains(g, "github.com/privacybydesign/gabi") {
				continue // runtime-internal goroutines
			}
			if !blocked[m[2]] {
				quiescent = false
				break
			}
			lib := ""
			for _, line := range strings.Split(g, "\n") {
				if strings.HasPrefix(line, "github.com/privacybydesign/gabi") {
					lib = line
					if k := strings.LastIndex(lib, "("); k > 0 {
						lib = lib[:k]
					}
					break
				}
				if strings.HasPrefix(line, "verifharness/") {
					break // blocked in the harness' own code (waiting for the workers)
				}
			}
			if lib != "" && site == "" {
				site = strings.TrimPrefix(lib, "github.com/privacybydesign/")
			}
			sig = append(sig, m[1]+":"+m[2]+":"+lib)
		}
		cur := strings.Join(sig, "|")
		if quiescent && site != "" && cur == last {
			same++
		} else {
			same = 0
		}
		last = cur
		if !quiescent || site == "" {
			last = ""
		}
		if same >= 2 {
			d := string(buf[:n])
			if len(d) > 6000 {
				d = d[:6000]
			}
			report(site, d)
			return
		}
	}
}
