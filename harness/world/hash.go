package world

import (
	"crypto/sha256"

	"github.com/privacybydesign/gabi/big"
)

func refHash(b []byte) *big.Int {
	h := sha256.Sum256(b)
	return new(big.Int).SetBytes(h[:])
}
