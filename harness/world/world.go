// Package world provides the actors of the harness: issuer keys (toy and
// fixture), credentials with their ledger (the ground truth of what was
// signed), and revocation authorities with full history.
package world

import (
	"encoding/base64"
	"encoding/xml"
	"fmt"
	"os"
	"path/filepath"
	"sync"
	"time"

	"github.com/privacybydesign/gabi"
	"github.com/privacybydesign/gabi/big"
	"github.com/privacybydesign/gabi/gabikeys"
	"github.com/privacybydesign/gabi/revocation"
	"github.com/privacybydesign/gabi/signed"
	"github.com/sirupsen/logrus"

	"verifharness/mon"
)

func init() {
	// keep the library quiet
	l := logrus.New()
	l.SetLevel(logrus.PanicLevel)
	l.SetOutput(os.Stderr)
	gabi.Logger = l
	revocation.Logger = l
}

// Key is an issuer key pair together with the trapdoor.
type Key struct {
	Name string
	SK   *gabikeys.PrivateKey
	PK   *gabikeys.PublicKey
	Ord  *big.Int // p'q', order of QR_n
}

// ToyParams returns system parameters for a toy modulus length; all lengths except Ln
// equal those of the 1024-bit (lstatzk=80) or 2048-bit (lstatzk=128) parameter set.
func ToyParams(ln, lstatzk uint) *gabikeys.SystemParameters {
	base := gabikeys.BaseParameters{LePrime: 120, Lh: 256, Lm: 256, Ln: ln, Lstatzk: lstatzk}
	return &gabikeys.SystemParameters{BaseParameters: base, DerivedParameters: gabikeys.MakeDerivedParameters(base)}
}

// GenKey generates a fresh key with the real generator.
func GenKey(name string, ln, lstatzk uint, nattr int) (*Key, error) {
	var params *gabikeys.SystemParameters
	if p, ok := gabikeys.DefaultSystemParameters[int(ln)]; ok && lstatzk == p.Lstatzk {
		params = p
	} else {
		params = ToyParams(ln, lstatzk)
	}
	sk, pk, err := gabikeys.GenerateKeyPair(params, nattr, 0, time.Unix(4102444800, 0))
	if err != nil {
		return nil, err
	}
	pk.Issuer = name
	return &Key{Name: name, SK: sk, PK: pk, Ord: sk.Order}, nil
}

// FixtureDir is where committed keys live.
func FixtureDir() string { return filepath.Join(mon.Dir(), "fixtures") }

// SaveFixture writes a key pair under fixtures/<name>.{pk,sk}.xml plus params.
func SaveFixture(k *Key) error {
	var pkb, skb xmlBuf
	if _, err := k.PK.WriteTo(&pkb); err != nil {
		return err
	}
	if _, err := k.SK.WriteTo(&skb); err != nil {
		return err
	}
	if err := os.WriteFile(filepath.Join(FixtureDir(), k.Name+".pk.xml"), pkb.b, 0o644); err != nil {
		return err
	}
	if err := os.WriteFile(filepath.Join(FixtureDir(), k.Name+".sk.xml"), skb.b, 0o644); err != nil {
		return err
	}
	meta := fmt.Sprintf("%d %d\n", k.PK.Params.Ln, k.PK.Params.Lstatzk)
	return os.WriteFile(filepath.Join(FixtureDir(), k.Name+".params"), []byte(meta), 0o644)
}

type xmlBuf struct{ b []byte }

func (x *xmlBuf) Write(p []byte) (int, error) { x.b = append(x.b, p...); return len(p), nil }

var (
	fixMu    sync.Mutex
	fixCache = map[string]*Key{}
)

// Fixture loads a committed key pair. Each call returns the same *Key (keys are read-only).
func Fixture(name string) *Key {
	fixMu.Lock()
	defer fixMu.Unlock()
	if k, ok := fixCache[name]; ok {
		return k
	}
	k, err := LoadFixture(name)
	if err != nil {
		panic(fmt.Sprintf("fixture %s: %v", name, err))
	}
	fixCache[name] = k
	return k
}

// LoadFixture loads a fresh copy of a committed key pair.
func LoadFixture(name string) (*Key, error) {
	pkb, err := os.ReadFile(filepath.Join(FixtureDir(), name+".pk.xml"))
	if err != nil {
		return nil, err
	}
	skb, err := os.ReadFile(filepath.Join(FixtureDir(), name+".sk.xml"))
	if err != nil {
		return nil, err
	}
	pb, err := os.ReadFile(filepath.Join(FixtureDir(), name+".params"))
	if err != nil {
		return nil, err
	}
	var ln, lstatzk uint
	if _, err := fmt.Sscanf(string(pb), "%d %d", &ln, &lstatzk); err != nil {
		return nil, err
	}
	sk, err := gabikeys.NewPrivateKeyFromXML(string(skb), true)
	if err != nil {
		return nil, err
	}
	pk, err := LoadPublicKey(pkb, ln, lstatzk)
	if err != nil {
		return nil, err
	}
	pk.Issuer = name
	return &Key{Name: name, SK: sk, PK: pk, Ord: sk.Order}, nil
}

// LoadPublicKey parses a public key; toy sizes bypass the library's size table.
func LoadPublicKey(pkb []byte, ln, lstatzk uint) (*gabikeys.PublicKey, error) {
	if p, ok := gabikeys.DefaultSystemParameters[int(ln)]; ok && p.Lstatzk == lstatzk {
		return gabikeys.NewPublicKeyFromBytes(pkb)
	}
	pk := &gabikeys.PublicKey{}
	if err := xml.Unmarshal(pkb, pk); err != nil {
		return nil, err
	}
	pk.Params = ToyParams(ln, lstatzk)
	if len(pk.ECDSAString) > 0 {
		bts, err := base64.StdEncoding.DecodeString(pk.ECDSAString)
		if err != nil {
			return nil, err
		}
		pk.ECDSA, err = signed.UnmarshalPublicKey(bts)
		if err != nil {
			return nil, err
		}
	}
	return pk, nil
}

// Cred is a credential with its ledger entry.
type Cred struct {
	C      *gabi.Credential
	Key    *Key
	Ledger []*big.Int // exactly what the issuer signed, index 0 = (total) secret
	Rev    *Rev       // revocation authority when the credential has a witness
	RevIdx int        // index of the revocation attribute, -1 if none
}

// Norm applies the >Lm hashing rule.
func Norm(v *big.Int, lm uint) *big.Int {
	if v.BitLen() > int(lm) {
		return refHash(v.Bytes())
	}
	return v
}

// NormLedger returns the exponent actually signed at index i (zero if i is unsigned).
func (c *Cred) NormLedger(i int) *big.Int {
	if i < 0 || i >= len(c.Ledger) {
		return big.NewInt(0)
	}
	return Norm(c.Ledger[i], c.Key.PK.Params.Lm)
}

// SignCred signs ms (ms[0] is the secret) directly with the issuer key.
func (k *Key) SignCred(ms []*big.Int) (*Cred, error) {
	sig, err := gabi.SignMessageBlock(k.SK, k.PK, ms)
	if err != nil {
		return nil, err
	}
	attrs := make([]*big.Int, len(ms))
	led := make([]*big.Int, len(ms))
	for i, m := range ms {
		attrs[i] = new(big.Int).Set(m)
		led[i] = new(big.Int).Set(m)
	}
	return &Cred{C: &gabi.Credential{Signature: sig, Pk: k.PK, Attributes: attrs}, Key: k, Ledger: led, RevIdx: -1}, nil
}

// SignCredRev signs ms plus a fresh revocation witness value appended as last attribute.
func (k *Key) SignCredRev(ms []*big.Int, rev *Rev) (*Cred, error) {
	w, err := rev.NewWitness()
	if err != nil {
		return nil, err
	}
	all := append(append([]*big.Int{}, ms...), w.E)
	c, err := k.SignCred(all)
	if err != nil {
		return nil, err
	}
	c.C.NonRevocationWitness = w
	c.Rev = rev
	c.RevIdx = len(all) - 1
	return c, nil
}

// Rev is a revocation authority with its complete history.
type Rev struct {
	Key    *Key
	mu     sync.Mutex
	Accs   []*revocation.Accumulator       // Accs[i] has Index i
	SAccs  []*revocation.SignedAccumulator // signed form of Accs[i]
	Events []*revocation.Event             // Events[i] has Index i (Events[0] is the initial event)
	clock  int64
}

// NewRev creates a revocation authority with accumulator index 0.
func NewRev(k *Key) (*Rev, error) {
	upd, err := revocation.NewAccumulator(k.SK)
	if err != nil {
		return nil, err
	}
	acc := upd.SignedAccumulator.Accumulator
	r := &Rev{Key: k, clock: 1_700_000_000}
	acc.Time = r.clock
	sacc, err := acc.Sign(k.SK)
	if err != nil {
		return nil, err
	}
	r.Accs = []*revocation.Accumulator{acc}
	r.SAccs = []*revocation.SignedAccumulator{sacc}
	r.Events = []*revocation.Event{upd.Events[0]}
	return r, nil
}

// Cur returns the current accumulator index.
func (r *Rev) Cur() int {
	r.mu.Lock()
	defer r.mu.Unlock()
	return len(r.Accs) - 1
}

// FreshSAcc returns a new SignedAccumulator object (own cache) for index i.
func (r *Rev) FreshSAcc(i int) *revocation.SignedAccumulator {
	r.mu.Lock()
	defer r.mu.Unlock()
	return copySAcc(r.SAccs[i])
}

func copySAcc(s *revocation.SignedAccumulator) *revocation.SignedAccumulator {
	acc := *s.Accumulator
	acc.Nu = new(big.Int).Set(acc.Nu)
	acc.EventHash = append(revocation.Hash{}, acc.EventHash...)
	return &revocation.SignedAccumulator{Data: append([]byte{}, s.Data...), PKCounter: s.PKCounter, Accumulator: &acc}
}

// NewWitness issues a witness against the current accumulator.
func (r *Rev) NewWitness() (*revocation.Witness, error) {
	return r.NewWitnessAt(r.Cur())
}

// NewWitnessAt issues a witness valid against accumulator index i.
func (r *Rev) NewWitnessAt(i int) (*revocation.Witness, error) {
	r.mu.Lock()
	acc := r.Accs[i]
	sacc := copySAcc(r.SAccs[i])
	r.mu.Unlock()
	w, err := revocation.RandomWitness(r.Key.SK, acc)
	if err != nil {
		return nil, err
	}
	w.SignedAccumulator = sacc
	w.Updated = time.Unix(acc.Time, 0)
	return w, nil
}

// Revoke removes e from the accumulator and returns the new index.
func (r *Rev) Revoke(e *big.Int) (int, error) {
	r.mu.Lock()
	defer r.mu.Unlock()
	cur := r.Accs[len(r.Accs)-1]
	acc, ev, err := cur.Remove(r.Key.SK, e, r.Events[len(r.Events)-1])
	if err != nil {
		return 0, err
	}
	r.clock += 10
	acc.Time = r.clock
	sacc, err := acc.Sign(r.Key.SK)
	if err != nil {
		return 0, err
	}
	r.Accs = append(r.Accs, acc)
	r.SAccs = append(r.SAccs, sacc)
	r.Events = append(r.Events, ev)
	return len(r.Accs) - 1, nil
}

// RevokeRandom revokes a fresh witness value nobody holds.
func (r *Rev) RevokeRandom() (int, *big.Int, error) {
	w, err := revocation.RandomWitness(r.Key.SK, r.Accs[0])
	if err != nil {
		return 0, nil, err
	}
	i, err := r.Revoke(w.E)
	return i, w.E, err
}

// Retime re-signs the current accumulator with a later time stamp and publishes it in place of the old one
// (an issuer confirming "no revocations since"). Index, value and event hash stay the same.
func (r *Rev) Retime(delta int64) error {
	r.mu.Lock()
	defer r.mu.Unlock()
	cur := len(r.Accs) - 1
	acc := *r.Accs[cur]
	r.clock += delta
	acc.Time = r.clock
	sacc, err := acc.Sign(r.Key.SK)
	if err != nil {
		return err
	}
	r.Accs[cur] = &acc
	r.SAccs[cur] = sacc
	return nil
}

// Resign returns a validly signed accumulator for index i with another time stamp.
func (r *Rev) Resign(i int, t int64) (*revocation.SignedAccumulator, error) {
	r.mu.Lock()
	defer r.mu.Unlock()
	acc := *r.Accs[i]
	acc.Time = t
	return acc.Sign(r.Key.SK)
}

// Update builds a fresh update message carrying events [from..to] (inclusive event
// indices) and the signed accumulator of index to. from > to gives an event-less update.
func (r *Rev) Update(from, to int) *revocation.Update {
	r.mu.Lock()
	defer r.mu.Unlock()
	u := &revocation.Update{SignedAccumulator: copySAcc(r.SAccs[to])}
	for i := from; i <= to; i++ {
		e := r.Events[i]
		u.Events = append(u.Events, &revocation.Event{Index: e.Index, E: new(big.Int).Set(e.E), ParentHash: append(revocation.Hash{}, e.ParentHash...)})
	}
	if u.Events == nil {
		u.Events = []*revocation.Event{}
	}
	return u
}

var (
	variantMu sync.Mutex
	variants  = map[string]*Key{}
)

// VariantLm returns (and caches) a key that shares modulus, bases and private key with k but declares another attribute size
// Lm (the quantity in which the 4096-bit parameter set differs from the smaller ones): a stand-in for a key of another size
// class that does not need 2048-bit safe primes.
func VariantLm(k *Key, lm uint) *Key {
	name := fmt.Sprintf("%s+lm%d", k.Name, lm)
	variantMu.Lock()
	defer variantMu.Unlock()
	if v, ok := variants[name]; ok {
		return v
	}
	base := k.PK.Params.BaseParameters
	base.Lm = lm
	params := &gabikeys.SystemParameters{BaseParameters: base, DerivedParameters: gabikeys.MakeDerivedParameters(base)}
	pk := *k.PK
	pk.Params = params
	pk.Issuer = name
	sk := *k.SK
	v := &Key{Name: name, SK: &sk, PK: &pk, Ord: k.Ord}
	variants[name] = v
	return v
}
