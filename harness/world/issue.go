package world

import (
	"fmt"

	"github.com/privacybydesign/gabi"
	"github.com/privacybydesign/gabi/big"
	"github.com/privacybydesign/gabi/revocation"
)

// IssueRun is the transcript of one run of the issuance protocol.
type IssueRun struct {
	Key     *Key
	Context *big.Int
	Nonce1  *big.Int
	Nonce2  *big.Int
	Secret  *big.Int
	KssP    *big.Int
	Blind   []int
	Attrs   []*big.Int // as given to the issuer (nil at blind positions)
	Builder *gabi.CredentialBuilder
	Commit  *gabi.IssueCommitmentMessage
	Sig     *gabi.IssueSignatureMessage
	Witness *revocation.Witness
	Cred    *gabi.Credential
}

// Issue runs the honest issuance protocol. attrs excludes the secret; attrs[i] must be nil for i in blind.
// If rev != nil a witness is issued and its value appended as last attribute.
func Issue(k *Key, context, nonce1, nonce2, secret, kssP *big.Int, attrs []*big.Int, blind []int, rev *Rev) (*IssueRun, error) {
	run := &IssueRun{Key: k, Context: context, Nonce1: nonce1, Nonce2: nonce2, Secret: secret, KssP: kssP, Blind: blind}
	b, err := gabi.NewCredentialBuilder(k.PK, context, secret, nonce2, kssP, blind)
	if err != nil {
		return nil, fmt.Errorf("NewCredentialBuilder: %w", err)
	}
	run.Builder = b
	run.Commit, err = b.CommitToSecretAndProve(nonce1)
	if err != nil {
		return nil, fmt.Errorf("CommitToSecretAndProve: %w", err)
	}
	all := append([]*big.Int{}, attrs...)
	if rev != nil {
		w, err := rev.NewWitness()
		if err != nil {
			return nil, err
		}
		run.Witness = w
		all = append(all, w.E)
	}
	run.Attrs = all
	issuer := gabi.NewIssuer(k.SK, k.PK, context)
	run.Sig, err = issuer.IssueSignature(run.Commit.U, all, run.Witness, nonce2, blind)
	if err != nil {
		return nil, fmt.Errorf("IssueSignature: %w", err)
	}
	return run, nil
}

// Finish lets the holder construct the credential from the issuer's message.
func (run *IssueRun) Finish() error {
	attrs := append([]*big.Int{}, run.Attrs...)
	c, err := run.Builder.ConstructCredential(run.Sig, attrs)
	if err != nil {
		return err
	}
	run.Cred = c
	return nil
}

// CredOf wraps an issued credential with its ledger (total secret = secret + kss share is the caller's business).
func (run *IssueRun) CredOf(rev *Rev) *Cred {
	led := make([]*big.Int, len(run.Cred.Attributes))
	for i, a := range run.Cred.Attributes {
		led[i] = new(big.Int).Set(a)
	}
	c := &Cred{C: run.Cred, Key: run.Key, Ledger: led, RevIdx: -1, Rev: rev}
	if run.Witness != nil {
		c.RevIdx = len(led) - 1
	}
	return c
}
