package world

import (
	"fmt"
	"os"
)

// FixtureSpec lists the committed keys.
var FixtureSpec = []struct {
	Name    string
	Ln      uint
	Lstatzk uint
	NAttr   int
}{
	{"toy256a", 256, 80, 10}, {"toy256b", 256, 80, 10},
	{"toy384a", 384, 80, 10}, {"toy384b", 384, 80, 10},
	{"toy512a", 512, 80, 10}, {"toy512b", 512, 80, 10}, {"toy512c", 512, 80, 6},
	{"toy512z", 512, 128, 10}, // stands in for ">1024-bit" parameter sets (Lstatzk=128)
	{"fix1024a", 1024, 80, 12}, {"fix1024b", 1024, 80, 12},
	{"fix2048a", 2048, 128, 12},
}

// GenFixtures generates all missing fixture keys.
func GenFixtures() error {
	if err := os.MkdirAll(FixtureDir(), 0o755); err != nil {
		return err
	}
	for _, s := range FixtureSpec {
		if _, err := os.Stat(FixtureDir() + "/" + s.Name + ".pk.xml"); err == nil {
			continue
		}
		fmt.Println("generating", s.Name)
		k, err := GenKey(s.Name, s.Ln, s.Lstatzk, s.NAttr)
		if err != nil {
			return err
		}
		if err := SaveFixture(k); err != nil {
			return err
		}
		if _, err := LoadFixture(s.Name); err != nil {
			return fmt.Errorf("reload %s: %w", s.Name, err)
		}
	}
	return nil
}
