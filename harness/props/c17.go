package props

import (
	"strings"
	"sync"
	"encoding/json"
	"fmt"
	"math/rand/v2"
	"os"
	"path/filepath"
	"reflect"
	"regexp"
	"sort"
	"sync/atomic"

	"github.com/privacybydesign/gabi/big"
	"github.com/privacybydesign/gabi/keyproof"
	"github.com/privacybydesign/gabi/safeprime"
	"github.com/privacybydesign/gabi/verifhooks"

	"verifharness/mon"
	"verifharness/refimpl"
)

func init() {
	Registry["C17"] = &Check{
		Level: "exploration",
		Rule: "(a) random provable keys (safe primes of 48..130 bits, 1..4 square bases): BuildProof then VerifyProof must be true, also after a JSON round trip; (b) the proof must not verify under another modulus or a changed/permuted/extended/truncated base list; " +
			"(c) a reflective walk enumerates every big-integer leaf of ValidKeyProof with its path, leaves are grouped into kinds by path pattern (indices abstracted), and a seeded sample covering kinds and positions is altered (+1, random same size, zero, sibling swap): VerifyProof must be false; " +
			"(d) component verifiers (through tag-guarded wrappers) face cheating provers that know the factorisation of forbidden moduli: p^2*q, p^3, p*q*r, non-disjoint p,q, (p-1)/2 composite, N != 5 mod 8, a factor below 1024; both OR-branches of the exponentiation steps are counted from a hook; " +
			"(e) results of the range secrets moved by +-k group orders (every exponent relation still holds, only the size limits can refuse); (f) 2 and 3 different proofs verified at the same time on ONE structure object under the schedule 'all structure checks, then all rebuilding' forced through keyproof.Follower, one altered proof among three; " +
			"non-trivial = the verifier was entered; distinct by (key, operator, leaf path | modulus shape, strategy) hash; oracle: honest accepted, everything else rejected (a panic is recorded and counts as non-acceptance)",
		Run: runC17,
	}
}

// provableKey draws safe primes until the residue conditions for a key proof hold.
func provableKey(bits int) (pp, qp, n *big.Int) {
	for {
		p, err := safeprime.Generate(bits, nil)
		if err != nil {
			panic(err)
		}
		q, err := safeprime.Generate(bits, nil)
		if err != nil {
			panic(err)
		}
		pp, qp = new(big.Int).Rsh(p, 1), new(big.Int).Rsh(q, 1)
		if keyproof.CanProve(pp, qp) {
			return pp, qp, mul(p, q)
		}
	}
}

type leaf struct {
	path string
	kind string
	get  func() *big.Int
	set  func(*big.Int)
}

var idxRe = regexp.MustCompile(`\[[^\]]*\]`)

var bigIntType = reflect.TypeOf((*big.Int)(nil))

// walkLeaves enumerates all *big.Int leaves reachable through exported fields, slices, arrays and maps.
func walkLeaves(v reflect.Value, path string, out *[]leaf) {
	switch v.Kind() {
	case reflect.Ptr:
		if v.Type() == bigIntType {
			if v.IsNil() || !v.CanSet() {
				return
			}
			vv := v
			*out = append(*out, leaf{path: path, kind: idxRe.ReplaceAllString(path, "[]"),
				get: func() *big.Int { return vv.Interface().(*big.Int) },
				set: func(x *big.Int) { vv.Set(reflect.ValueOf(x)) }})
			return
		}
		if !v.IsNil() {
			walkLeaves(v.Elem(), path, out)
		}
	case reflect.Struct:
		for i := 0; i < v.NumField(); i++ {
			f := v.Type().Field(i)
			if f.PkgPath != "" {
				continue
			}
			walkLeaves(v.Field(i), path+"."+f.Name, out)
		}
	case reflect.Slice, reflect.Array:
		for i := 0; i < v.Len(); i++ {
			walkLeaves(v.Index(i), fmt.Sprintf("%s[%d]", path, i), out)
		}
	case reflect.Map:
		keys := v.MapKeys()
		sort.Slice(keys, func(a, b int) bool { return fmt.Sprint(keys[a]) < fmt.Sprint(keys[b]) })
		for _, k := range keys {
			if v.Type().Elem() == bigIntType {
				kk := k
				mv := v
				*out = append(*out, leaf{path: fmt.Sprintf("%s[%v]", path, k), kind: idxRe.ReplaceAllString(path, "[]") + "[]",
					get: func() *big.Int { return mv.MapIndex(kk).Interface().(*big.Int) },
					set: func(x *big.Int) { mv.SetMapIndex(kk, reflect.ValueOf(x)) }})
				continue
			}
			if v.Type().Elem().Kind() == reflect.Slice {
				// slice elements stay addressable although the map value itself is not
				walkLeaves(v.MapIndex(k), fmt.Sprintf("%s[%v]", path, k), out)
			}
		}
	}
}

var c17BranchA, c17BranchB atomic.Int64

// inflight records the case being verified where the driver finds it if the process dies (the verifier's own goroutines
// cannot be put under recover()).
func inflight(desc string) {
	dir := filepath.Join(mon.Dir(), "replays", "C17")
	_ = os.MkdirAll(dir, 0o755)
	if desc == "" {
		_ = os.Remove(filepath.Join(dir, "inflight.txt"))
		return
	}
	_ = os.WriteFile(filepath.Join(dir, "inflight.txt"), []byte(desc), 0o644)
}

func runC17(r *mon.Run) {
	verifhooks.SetVerifPoint(func(name string) {
		switch name {
		case "expstep.branchA":
			c17BranchA.Add(1)
		case "expstep.branchB":
			c17BranchB.Add(1)
		}
	})
	defer verifhooks.SetVerifPoint(nil)
	rng := r.Rand("keys")
	nKeys := r.Pick(1, 4)
	nLeaves := r.Pick(24, 600)
	for k := 0; k < nKeys; k++ {
		bits := []int{64, 48, 96, 130}[k%4]
		if k == 0 && !r.Thorough() {
			bits = 56 + rng.IntN(16)
		}
		c17Key(r, rng, bits, 1+rng.IntN(4), nLeaves, k)
	}
	c17Interleaved(r)
	// cheap extra completeness runs
	for k := 0; k < r.Pick(1, 6); k++ {
		c17Complete(r, rng, 48+rng.IntN(83), 1+rng.IntN(4))
	}
	r.Set("expstep_branch_A_proved", c17BranchA.Load())
	r.Set("expstep_branch_B_proved", c17BranchB.Load())
	if c17BranchA.Load() == 0 || c17BranchB.Load() == 0 {
		r.Inconclusive("one OR-branch of the exponentiation step was never proved")
	}
	c17Components(r, rng)
	c17ORForgery(r, rng)
	c17PrimePowerFactor(r, rng)
	r.FloorAccept("complete", 2)
	r.FloorFam("binding", 5)
	r.FloorFam("leaf-alter", 20)
	r.FloorFam("leaf-order-shift", 8)
	r.FloorFam("aspp-simulated", 1)
	r.FloorFam("component-cheat", 30)
	r.FloorFam("component-position-alter", 500)
	r.Floor("forbidden moduli for which all four sub-proofs verify (only the mod-8 condition rejects)", 1, func() int64 { return r.Get("bad_modulus_with_all_subproofs_valid") })
	r.FloorAccept("component-honest", 4)
}

func squareBases(rng *rand.Rand, n *big.Int, k int) []*big.Int {
	out := make([]*big.Int, k)
	for i := range out {
		x := randBig(rng, n.BitLen()-2)
		out[i] = new(big.Int).Mod(mul(x, x), n)
	}
	return out
}

func c17Complete(r *mon.Run, rng *rand.Rand, bits, nb int) {
	pp, qp, n := provableKey(bits)
	bases := squareBases(rng, n, nb)
	s := keyproof.NewValidKeyProofStructure(n, bases)
	var proof keyproof.ValidKeyProof
	pv, stack := mon.Try(func() { proof = s.BuildProof(pp, qp) })
	desc := fmt.Sprintf("prime bits=%d bases=%d", bits, nb)
	r.Distinct("complete", desc, n.String())
	if pv != nil {
		r.Eval("complete", "panic")
		r.Violation("C17/build-proof-panics", fmt.Sprintf("BuildProof panicked for a provable key: %v at %s (%s)", pv, mon.PanicSite(stack), desc), map[string]any{"pprime": dumpInt(pp), "qprime": dumpInt(qp)})
		return
	}
	ok := s.VerifyProof(proof)
	r.Eval("complete", outcome(ok, nil))
	if !ok {
		r.Violation("C17/valid-key-proof-rejected", "proof for a properly generated key does not verify ("+desc+")", map[string]any{"pprime": dumpInt(pp), "qprime": dumpInt(qp), "bases": dumpInts(bases)})
	}
}

func c17Key(r *mon.Run, rng *rand.Rand, bits, nb, nLeaves, keyNo int) {
	pp, qp, n := provableKey(bits)
	bases := squareBases(rng, n, nb)
	desc := fmt.Sprintf("key#%d prime bits=%d bases=%d", keyNo, bits, nb)
	s := keyproof.NewValidKeyProofStructure(n, bases)
	var proof keyproof.ValidKeyProof
	pv, _ := mon.Try(func() { proof = s.BuildProof(pp, qp) })
	if pv != nil {
		r.Violation("C17/build-proof-panics", fmt.Sprintf("BuildProof panicked: %v (%s)", pv, desc), nil)
		return
	}
	keyRep := map[string]any{"pprime": dumpInt(pp), "qprime": dumpInt(qp), "bases": dumpInts(bases)}
	verify := func(st keyproof.ValidKeyProofStructure, p keyproof.ValidKeyProof) (ok bool, panicked bool) {
		pv, stack := mon.Try(func() { ok = st.VerifyProof(p) })
		if pv != nil {
			r.PanicSeen(mon.PanicSite(stack))
			return false, true
		}
		return ok, false
	}
	ok, _ := verify(s, proof)
	r.Eval("complete", outcome(ok, nil))
	r.Distinct("complete", desc, n.String())
	if !ok {
		r.Violation("C17/valid-key-proof-rejected", "proof for a properly generated key does not verify ("+desc+")", keyRep)
		return
	}
	// JSON round trip
	doc, err := json.Marshal(proof)
	if err != nil {
		r.Violation("C17/proof-not-serialisable", "key proof does not marshal: "+err.Error(), keyRep)
		return
	}
	var rt keyproof.ValidKeyProof
	if err := json.Unmarshal(doc, &rt); err != nil {
		r.Violation("C17/proof-not-serialisable", "key proof does not unmarshal: "+err.Error(), keyRep)
		return
	}
	ok, _ = verify(s, rt)
	r.Eval("complete", outcome(ok, nil))
	if !ok {
		r.Violation("C17/valid-key-proof-rejected-after-json", "key proof does not verify after a JSON round trip ("+desc+")", keyRep)
		return
	}
	r.Set("proof_json_bytes", len(doc))

	// (a') the same structure object serves a second proof (another proof group: BuildProof draws its own group prime):
	// a verifier checks many issuers' proofs for one key description, a prover may prove again
	{
		var proof2 keyproof.ValidKeyProof
		inflight("second proof built by the same structure object, " + desc)
		pv, _ := mon.Try(func() { proof2 = s.BuildProof(pp, qp) })
		inflight("")
		if pv != nil {
			r.Violation("C17/build-proof-panics", fmt.Sprintf("BuildProof panicked on its second use: %v (%s)", pv, desc), keyRep)
			return
		}
		r.Set("second_proof_same_group", proof2.GroupPrime != nil && proof.GroupPrime != nil && proof2.GroupPrime.Cmp(proof.GroupPrime) == 0)
		fresh := keyproof.NewValidKeyProofStructure(n, bases)
		inflight("second proof verified by a fresh structure, " + desc)
		okFresh, _ := verify(fresh, proof2)
		inflight("second proof verified by the structure that built it, " + desc)
		okSame, _ := verify(s, proof2)
		inflight("first proof verified again by the same structure, " + desc)
		okFirst, _ := verify(s, rt)
		inflight("")
		r.Eval("complete", outcome(okFresh, nil))
		r.Eval("complete", outcome(okSame, nil))
		r.Eval("complete", outcome(okFirst, nil))
		r.Distinct("complete-reuse", desc)
		if !okFresh || !okSame || !okFirst {
			r.Violation("C17/valid-key-proof-rejected/structure-reused", fmt.Sprintf("with one structure object used for two proofs of the same good key: second proof verified by a fresh structure=%v, by the same structure=%v, first proof again=%v (%s)", okFresh, okSame, okFirst, desc), keyRep)
			return
		}
	}

	// (b) binding to modulus and base list
	bind := func(name string, n2 *big.Int, b2 []*big.Int) {
		st := keyproof.NewValidKeyProofStructure(n2, b2)
		ok, p := verify(st, rt)
		out := outcome(ok, nil)
		if p {
			out = "panic"
		}
		r.Eval("binding", out)
		r.Distinct("binding", desc, name)
		if ok {
			r.Violation("C17/proof-verifies-for-other-key/"+name, "key proof verifies under "+name+" ("+desc+")", keyRep)
		}
	}
	_, _, n2 := provableKey(bits)
	bind("another modulus", n2, bases)
	bind("modulus+2", add(n, bi(2)), bases)
	ob := cloneInts(bases)
	ob[0] = new(big.Int).Mod(mul(ob[0], bi(4)), n)
	bind("one base replaced", n, ob)
	bind("base list extended", n, append(cloneInts(bases), bi(49)))
	if len(bases) > 1 {
		bind("base list truncated", n, bases[:len(bases)-1])
		pb := cloneInts(bases)
		pb[0], pb[1] = pb[1], pb[0]
		if pb[0].Cmp(bases[0]) != 0 {
			bind("base list permuted", n, pb)
		}
	} else {
		bind("base list emptied", n, nil)
	}

	// (c) leaf alteration (in place, restored afterwards)
	var leaves []leaf
	walkLeaves(reflect.ValueOf(&rt).Elem(), "proof", &leaves)
	kinds := map[string][]int{}
	for i, l := range leaves {
		kinds[l.kind] = append(kinds[l.kind], i)
	}
	kindNames := make([]string, 0, len(kinds))
	for k := range kinds {
		kindNames = append(kindNames, k)
	}
	sort.Strings(kindNames)
	r.Set("leaves_in_proof", len(leaves))
	r.Set("leaf_kinds", len(kindNames))
	rng.Shuffle(len(kindNames), func(a, b int) { kindNames[a], kindNames[b] = kindNames[b], kindNames[a] })
	covered := 0
	for t := 0; covered < nLeaves && t < 4*nLeaves; t++ {
		kind := kindNames[t%len(kindNames)]
		pos := kinds[kind]
		var li int
		switch (t / len(kindNames)) % 3 {
		case 0:
			li = pos[0]
		case 1:
			li = pos[len(pos)-1]
		default:
			li = pos[rng.IntN(len(pos))]
		}
		l := leaves[li]
		orig := l.get()
		var nv *big.Int
		op := []string{"+1", "random", "zero", "sibling"}[t%4]
		switch op {
		case "+1":
			nv = add(orig, bigOne)
		case "random":
			nv = randBig(rng, maxInt(orig.BitLen(), 8))
		case "zero":
			nv = bi(0)
		case "sibling":
			sib := leaves[pos[rng.IntN(len(pos))]].get()
			nv = cp(sib)
		}
		if nv.Cmp(orig) == 0 {
			continue
		}
		l.set(nv)
		inflight(fmt.Sprintf("component %s altered (%s), %s", l.path, op, desc))
		ok, p := verify(s, rt)
		inflight("")
		l.set(orig)
		out := outcome(ok, nil)
		if p {
			out = "panic"
		}
		r.Eval("leaf-alter", out)
		r.Distinct("leaf", desc, l.path, op)
		covered++
		if ok {
			r.Violation("C17/altered-proof-verifies", fmt.Sprintf("key proof still verifies after altering %s (%s) (%s)", l.path, op, desc),
				map[string]any{"key": keyRep, "leaf": l.path, "operator": op, "original": dumpInt(orig), "altered": dumpInt(nv)})
		}
		if t < 3 {
			r.Sample(map[string]any{"altered_leaf": l.path, "kind": kind, "operator": op, "key": desc})
		}
	}
	// (c') responses moved by the group order: every relation in the exponent still holds (the reconstructed commitments, and so
	// the challenge, are the same), only the size limits of the range proofs - which tie the committed values to the integers -
	// can refuse such a proof. One leaf of every kind of range-proof result, first and last position.
	if rt.GroupPrime != nil {
		gorder := new(big.Int).Rsh(rt.GroupPrime, 1)
		for _, kind := range kindNames {
			if !strings.Contains(kind, "Results") && os.Getenv("VERIF_C17_ALLSHIFT") == "" {
				continue
			}
			// of a range proof's results only those of the range secret are limited in size (the hider's are exponents like any
			// other): first and last position of the non-hider entries
			var pos []int
			for _, li := range kinds[kind] {
				if !strings.Contains(leaves[li].path, "hider]") {
					pos = append(pos, li)
				}
			}
			if len(pos) == 0 {
				continue
			}
			sel, shifts := []int{pos[0], pos[len(pos)-1]}, []int64{1, 3, -1, -2}
			if !r.Thorough() || keyNo > 0 {
				sel, shifts = []int{pos[(len(kind)%2)*(len(pos)-1)]}, []int64{1, -1}
			}
			for _, li := range sel {
				l := leaves[li]
				orig := l.get()
				for _, k := range shifts {
					l.set(add(orig, mul(gorder, bi(k))))
					inflight(fmt.Sprintf("component %s moved by %d group orders, %s", l.path, k, desc))
					ok, p := verify(s, rt)
					inflight("")
					l.set(orig)
					out := outcome(ok, nil)
					if p {
						out = "panic"
					}
					r.Eval("leaf-order-shift", out)
					r.Distinct("leaf-order-shift", desc, l.path, k)
					if ok && os.Getenv("VERIF_C17_ALLSHIFT") != "" {
						fmt.Println("ALLSHIFT accepted:", kind)
						continue
					}
					if ok {
						r.Violation("C17/oversized-response-accepted", fmt.Sprintf("key proof still verifies with %s moved by %d group orders: the range proof's size limit does not hold (%s)", l.path, k, desc),
							map[string]any{"key": keyRep, "leaf": l.path, "orders": k, "original": dumpInt(orig)})
					}
				}
				if len(pos) == 1 {
					break
				}
			}
		}
	}
	// the almost-safe-prime-product part simulated after the fact: for the proof's own challenge every round's commitment is
	// recomputed from a freely chosen response (C_i = base_i^(r_i^2 - x_i)), which satisfies the round's equation without any
	// secret. The commitments are part of what the challenge was computed over, so the proof must no longer verify.
	{
		sim := rt // struct copy; the slices below are replaced, not written through
		ap := sim.QSPPproof.ASPPproof
		k := len(ap.Commitments)
		if k > 0 && len(ap.Responses) == k && ap.Nonce != nil {
			cs, rs := make([]*big.Int, k), make([]*big.Int, k)
			okSim := true
			for i := 0; i < k; i++ {
				base := new(big.Int).Mod(refimpl.GetHashNumber(ap.Nonce, nil, i, uint(n.BitLen())), n)
				xi := refimpl.GetHashNumber(sim.Challenge, bi(3), i, uint(2*n.BitLen()))
				ri := randBig(rng, n.BitLen()-2)
				c := refimpl.PowSigned(base, sub(mul(ri, ri), xi), n)
				if c == nil {
					okSim = false
					break
				}
				cs[i], rs[i] = c, ri
			}
			if okSim {
				sim.QSPPproof.ASPPproof.Commitments, sim.QSPPproof.ASPPproof.Responses = cs, rs
				inflight("almost-safe-prime-product part simulated, " + desc)
				ok, p := verify(s, sim)
				inflight("")
				out := outcome(ok, nil)
				if p {
					out = "panic"
				}
				r.Eval("aspp-simulated", out)
				r.Distinct("aspp-simulated", desc)
				if ok {
					r.Violation("C17/simulated-component-accepted/almost-safe-prime-product", "key proof still verifies after its almost-safe-prime-product commitments and responses were replaced by a transcript simulated for the proof's own challenge ("+desc+")", keyRep)
				}
			}
		}
	}
	// every kind of component removed (nil) at its first, last and a random position: the verifier has to refuse the
	// proof by returning false - the proof comes from an issuer nobody trusts yet, a crash is not a refusal
	for _, kind := range kindNames {
		pos := kinds[kind]
		for _, li := range []int{pos[0], pos[len(pos)-1], pos[rng.IntN(len(pos))]} {
			l := leaves[li]
			orig := l.get()
			l.set(nil)
			var ok bool
			inflight(fmt.Sprintf("component %s removed (nil), %s", l.path, desc))
			pv, stack := mon.Try(func() { ok = s.VerifyProof(rt) })
			inflight("")
			l.set(orig)
			r.Eval("leaf-removed", outcome(ok, pv))
			r.Distinct("leaf-removed", desc, l.path)
			if pv != nil {
				r.Violation("C17/verifier-crashes-on-missing-component", fmt.Sprintf("VerifyProof panics instead of refusing a proof whose component %s is missing: %v at %s (%s)", l.path, pv, mon.PanicSite(stack), desc),
					map[string]any{"key": keyRep, "leaf": l.path, "stack": stack})
			} else if ok {
				r.Violation("C17/altered-proof-verifies", fmt.Sprintf("key proof still verifies with component %s missing (%s)", l.path, desc), map[string]any{"key": keyRep, "leaf": l.path, "operator": "nil"})
			}
		}
	}
	seenKinds := covered
	if seenKinds > len(kindNames) {
		seenKinds = len(kindNames)
	}
	r.Set("leaf_kinds_altered", seenKinds)
	// the restored proof must still verify (the alterations were really undone, the verifier did not corrupt it)
	ok, _ = verify(s, rt)
	if !ok {
		r.Violation("C17/verification-corrupts-proof", "the proof no longer verifies after a series of failed verifications of altered copies", keyRep)
	}
}

// ---- (e) OR-composition of the exponentiation sub-proof ----

// c17ORForgery plays the cheating prover of keyproof.VerifExpORForger: an honest proof of a TRUE statement a^b = r (mod n)
// in which one square-and-multiply step has both OR branches simulated with free sub-challenges must be refused at every
// step position; with a FALSE r the same forgery at the last step would prove the false statement.
func c17ORForgery(r *mon.Run, rng *rand.Rand) {
	const bitlen = 8
	var f *keyproof.VerifExpORForger
	var gok bool
	if pv, _ := mon.Try(func() { f, gok = keyproof.VerifNewExpORForger(bitlen) }); pv != nil || !gok {
		r.Inconclusive("the proof group for the OR-forgery adversary could not be built")
		return
	}
	steps := f.Steps(bitlen)
	r.Set("exp_proof_steps", steps)
	cases := r.Pick(2, 8)
	for c := 0; c < cases; c++ {
		n := []int64{251, 241, 239, 233, 229, 227, 223, 211}[c%8]
		a := int64(2 + rng.IntN(int(n)-3))
		b := int64(128 + rng.IntN(120)) // top bit set: every step matters
		if c%2 == 1 {
			b = int64(1 + rng.IntN(250))
		}
		rt := new(big.Int).Exp(bi(a), bi(b), bi(n)).Int64()
		rf := (rt+40)%(n-2) + 1
		if rf == rt {
			rf++
		}
		desc := fmt.Sprintf("%d^%d mod %d", a, b, n)
		shifted := false
		run := func(res int64, step int) (ok bool, died bool) {
			inflight(fmt.Sprintf("OR-forgery %s = %d, step %d shifted=%v", desc, res, step, shifted))
			pv, stack := mon.Try(func() { ok = f.RunShifted(a, b, n, res, bitlen, step, shifted) })
			inflight("")
			if pv != nil {
				r.PanicSeen(mon.PanicSite(stack))
				return false, true
			}
			return ok, false
		}
		okH, died := run(rt, -1)
		r.Eval("or-forgery-control", outcome(okH, nil))
		if !okH || died {
			r.Violation("C17/honest-exponentiation-proof-rejected", "an honest exponentiation sub-proof of a true statement is rejected ("+desc+")", map[string]any{"case": desc})
			continue
		}
		okF, _ := run(rf, -1)
		r.Eval("or-forgery-control", outcome(!okF, nil))
		if okF {
			r.Violation("C17/false-exponentiation-statement-accepted/honest-prover", fmt.Sprintf("the honest prover run on the false statement %s = %d is accepted", desc, rf), map[string]any{"case": desc, "claimed": rf, "true": rt})
		}
		order := rng.Perm(steps)
		nSteps := steps
		if !r.Thorough() && nSteps > 4 {
			nSteps = 4
		}
		tried := map[int]bool{}
		for _, k := range append([]int{steps - 1, 0}, order...) {
			if tried[k] || len(tried) >= nSteps {
				continue
			}
			tried[k] = true
			ok, _ := run(rt, k)
			r.Eval("or-forgery", outcome(ok, nil))
			r.Distinct("or-forgery", desc, k)
			if ok {
				r.Violation("C17/or-composition-accepted-with-free-subchallenges", fmt.Sprintf("exponentiation sub-proof accepted although step %d of %d has both OR branches simulated (sub-challenges do not XOR to the challenge) (%s)", k, steps, desc),
					map[string]any{"case": desc, "step": k, "steps": steps})
			}
		}
		// the same with the simulated sub-challenge shifted by a multiple of the group order so that the split holds on the
		// low 256 bits (a sub-challenge acts only as an exponent in a group of that order)
		shifted = true
		for _, k := range []int{steps - 1, 0, order[0]} {
			ok, _ := run(rt, k)
			r.Eval("or-forgery", outcome(ok, nil))
			r.Distinct("or-forgery-shifted", desc, k)
			if ok {
				r.Violation("C17/or-composition-accepted-with-free-subchallenges/shifted-by-group-order", fmt.Sprintf("exponentiation sub-proof accepted although step %d of %d has both OR branches simulated, one sub-challenge shifted by a multiple of the group order (%s)", k, steps, desc),
					map[string]any{"case": desc, "step": k, "steps": steps})
			}
		}
		if okS, _ := run(rf, steps-1); okS {
			r.Violation("C17/false-exponentiation-statement-accepted", fmt.Sprintf("the false statement %s = %d (true %d) is accepted with the last step simulated and a sub-challenge shifted by a multiple of the group order", desc, rf, rt), map[string]any{"case": desc, "claimed": rf, "true": rt})
		}
		shifted = false
		ok, _ := run(rf, steps-1)
		r.Eval("or-forgery", outcome(ok, nil))
		r.Distinct("or-forgery-false", desc)
		if ok {
			r.Violation("C17/false-exponentiation-statement-accepted", fmt.Sprintf("the false statement %s = %d (true %d) is accepted with the last step's OR branches both simulated", desc, rf, rt), map[string]any{"case": desc, "claimed": rf, "true": rt})
		}
	}
	r.FloorFam("or-forgery", 6)
}

// ---- (f) whole proof on a modulus with a factor 2r^3+1 ----

// c17PrimePowerFactor plays keyproof.VerifForgeKeyProofPrimePowerFactor: N = P*Q with Q = 2r^3+1 prime, so that every
// component proof about N holds and only "q' is prime" excludes the key. The slot of that primality proof is filled with a
// primality proof about p' (wiring confusion: a true statement about the other factor); the whole proof must be refused.
func c17PrimePowerFactor(r *mon.Run, rng *rand.Rand) {
	var pp, rr *big.Int
	if pv, _ := mon.Try(func() { pp, rr, _ = keyproof.VerifFindPrimePowerKey() }); pv != nil || pp == nil {
		r.Inconclusive("no modulus with a prime-power factor found for the forged key proof")
		return
	}
	bases := []*big.Int{bi(36), bi(49)}
	// (a primality proof about q' itself is not attempted: the library's honest sub-prover does not return on a composite)
	for _, slot := range []string{"pprime"} {
		var acc, qspp bool
		inflight("forged key proof for N with Q = 2r^3+1, primality slot about " + slot)
		pv, stack := mon.Try(func() { acc, qspp = keyproof.VerifForgeKeyProofPrimePowerFactor(pp, rr, bases, slot) })
		inflight("")
		r.Distinct("prime-power-factor", slot)
		if pv != nil {
			// the honest sub-provers refuse to work on the false statement: nothing was presented to the verifier
			r.Eval("prime-power-factor", "error")
			r.PanicSeen(mon.PanicSite(stack))
			continue
		}
		r.Eval("prime-power-factor", outcome(acc, nil))
		r.Set("prime_power_key_qspp_part_holds", qspp)
		if acc {
			r.Violation("C17/key-with-prime-power-factor-accepted", fmt.Sprintf("the key-correctness proof is accepted for N = P*Q with Q = 2*r^3+1 (q' = r^3 is not prime), the primality slot of q' holding a proof about %s", slot),
				map[string]any{"pprime": dumpInt(pp), "r": dumpInt(rr), "slot": slot})
		}
	}
	r.FloorFam("prime-power-factor", 1)
}

// ---- (d) component soundness ----

func randPrime(rng *rand.Rand, bits int, cond func(p *big.Int) bool) *big.Int {
	for {
		p := randBig(rng, bits)
		p = p.SetBit(p, bits-1, 1)
		p = p.SetBit(p, 0, 1)
		if p.Go().ProbablyPrime(20) && (cond == nil || cond(p)) {
			return p
		}
	}
}

func c17Components(r *mon.Run, rng *rand.Rand) {
	one := bi(1)
	challenge := randBig(rng, 256)
	reps := r.Pick(3, 20)
	for rep := 0; rep < reps; rep++ {
		bits := 40 + rng.IntN(30)
		// honest baseline on a good modulus
		pp, qp, n := provableKey(bits)
		p, q := add(mul(pp, bi(2)), one), add(mul(qp, bi(2)), one)
		phi := mul(sub(p, one), sub(q, one))
		hon := func(name string, ok bool) {
			r.Eval("component-honest", outcome(ok, nil))
			r.Distinct("component-honest", name, rep)
			if !ok {
				r.Violation("C17/component-rejects-honest/"+name, "component proof "+name+" built for a good modulus is rejected", map[string]any{"p": dumpInt(p), "q": dumpInt(q)})
			}
		}
		sf := keyproof.VerifSquareFreeBuildProof(n, phi, challenge, bi(0))
		hon("squarefree", keyproof.VerifSquareFreeVerifyStructure(sf) && keyproof.VerifSquareFreeVerifyProof(n, challenge, bi(0), sf))
		ppp := keyproof.VerifPrimePowerProductBuildProof(p, q, challenge, bi(1))
		hon("primepower", keyproof.VerifPrimePowerProductVerifyStructure(ppp) && keyproof.VerifPrimePowerProductVerifyProof(n, challenge, bi(1), ppp))
		dpp := keyproof.VerifDisjointPrimeProductBuildProof(p, q, challenge, bi(2))
		hon("disjoint", keyproof.VerifDisjointPrimeProductVerifyStructure(dpp) && keyproof.VerifDisjointPrimeProductVerifyProof(n, challenge, bi(2), dpp))
		_, aspp := keyproof.VerifAlmostSafePrimeProductBuild(pp, qp, challenge, bi(3))
		hon("almostsafe", keyproof.VerifAlmostSafePrimeProductVerifyStructure(aspp) && keyproof.VerifAlmostSafePrimeProductVerifyProof(n, challenge, bi(3), aspp))
		qspp := keyproof.VerifQuasiSafePrimeProductBuild(pp, qp, challenge)
		hon("quasisafe", keyproof.VerifQuasiSafePrimeProductVerifyStructure(qspp) && keyproof.VerifQuasiSafePrimeProductVerifyProof(n, challenge, qspp))

		// every position of every honest component proof altered: the component verifier must notice each one
		posAlter := func(name string, n int, alter func(i int) (restore func()), verify func() bool) {
			for i := 0; i < n; i++ {
				restore := alter(i)
				var ok bool
				pv, _ := mon.Try(func() { ok = verify() })
				restore()
				out := outcome(ok, nil)
				if pv != nil {
					out, ok = "panic", false
				}
				r.Eval("component-position-alter", out)
				r.Distinct("component-position-alter", name, i, rep)
				if ok {
					r.Violation("C17/component-ignores-altered-position/"+name, fmt.Sprintf("component verifier %s accepts a proof whose entry %d of %d was altered", name, i, n), map[string]any{"component": name, "position": i})
					return
				}
			}
		}
		bump := func(list []*big.Int) func(i int) func() {
			return func(i int) func() {
				orig := list[i]
				list[i] = add(orig, bigOne)
				return func() { list[i] = orig }
			}
		}
		posAlter("squarefree.Responses", len(sf.Responses), bump(sf.Responses), func() bool { return keyproof.VerifSquareFreeVerifyProof(n, challenge, bi(0), sf) })
		posAlter("primepower.Responses", len(ppp.Responses), bump(ppp.Responses), func() bool { return keyproof.VerifPrimePowerProductVerifyProof(n, challenge, bi(1), ppp) })
		posAlter("disjoint.Responses", len(dpp.Responses), bump(dpp.Responses), func() bool { return keyproof.VerifDisjointPrimeProductVerifyProof(n, challenge, bi(2), dpp) })
		posAlter("almostsafe.Responses", len(aspp.Responses), bump(aspp.Responses), func() bool { return keyproof.VerifAlmostSafePrimeProductVerifyProof(n, challenge, bi(3), aspp) })
		posAlter("almostsafe.Commitments", len(aspp.Commitments), bump(aspp.Commitments), func() bool { return keyproof.VerifAlmostSafePrimeProductVerifyProof(n, challenge, bi(3), aspp) })
		posAlter("quasisafe.PPP.Responses", len(qspp.PPPproof.Responses), bump(qspp.PPPproof.Responses), func() bool { return keyproof.VerifQuasiSafePrimeProductVerifyProof(n, challenge, qspp) })

		cheat := func(name, strategy string, f func() bool) {
			var ok bool
			pv, stack := mon.Try(func() { ok = f() })
			out := outcome(ok, nil)
			if pv != nil {
				out = "panic"
				ok = false
				r.PanicSeen(mon.PanicSite(stack))
			}
			r.Eval("component-cheat", out)
			r.Distinct("component-cheat", name, strategy, rep)
			if ok {
				r.Violation("C17/component-accepts-bad-modulus/"+name, fmt.Sprintf("component verifier %s accepts a forbidden modulus (%s)", name, strategy), map[string]any{"strategy": strategy, "challenge": dumpInt(challenge)})
			}
		}
		a := randPrime(rng, bits, nil)
		b := randPrime(rng, bits, nil)
		c := randPrime(rng, bits, nil)
		// --- square-freeness: N = a^2*b and a^3; best strategy: N-th roots modulo each prime power where they exist
		for _, shape := range []struct {
			name string
			n    *big.Int
			pps  [][2]*big.Int // (prime, exponent-as-int)
		}{
			{"a^2*b", mul(mul(a, a), b), [][2]*big.Int{{a, bi(2)}, {b, bi(1)}}},
			{"a^3", mul(mul(a, a), a), [][2]*big.Int{{a, bi(3)}}},
		} {
			N := shape.n
			cheat("squarefree", shape.name+": honest builder with true phi", func() bool {
				phiN := bi(1)
				for _, pe := range shape.pps {
					e := int(pe[1].Int64())
					t := sub(pe[0], one)
					for i := 1; i < e; i++ {
						t = mul(t, pe[0])
					}
					phiN = mul(phiN, t)
				}
				pr := keyproof.VerifSquareFreeBuildProof(N, phiN, challenge, bi(0))
				return keyproof.VerifSquareFreeVerifyProof(N, challenge, bi(0), pr)
			})
			cheat("squarefree", shape.name+": roots modulo the square-free part, lifted", func() bool {
				// x -> x^(N^-1 mod lambda') where lambda' drops the factor a from phi: correct modulo b, wrong modulo a^k unless lucky
				red := bi(1)
				for _, pe := range shape.pps {
					red = mul(red, sub(pe[0], one))
				}
				inv := new(big.Int).ModInverse(N, red)
				if inv == nil {
					inv = bi(1)
				}
				var pr keyproof.SquareFreeProof
				for i := 0; i < 8; i++ {
					ch := refimpl.GetHashNumber(challenge, bi(0), i, uint(N.BitLen()))
					ch.Mod(ch, N)
					pr.Responses = append(pr.Responses, new(big.Int).Exp(ch, inv, N))
				}
				return keyproof.VerifSquareFreeVerifyStructure(pr) && keyproof.VerifSquareFreeVerifyProof(N, challenge, bi(0), pr)
			})
			cheat("quasisafe", shape.name+": proof of a good key presented for this modulus", func() bool {
				return keyproof.VerifQuasiSafePrimeProductVerifyProof(N, challenge, qspp)
			})
		}
		// --- prime power product: three distinct primes, square roots where they exist
		N3 := mul(mul(a, b), c)
		cheat("primepower", "a*b*c: roots of whichever of +-x, +-2x is a square modulo all three primes", func() bool {
			var pr keyproof.PrimePowerProductProof
			for i := 0; i < 80; i++ {
				ch := refimpl.GetHashNumber(challenge, bi(1), i, uint(N3.BitLen()))
				ch.Mod(ch, N3)
				resp := bi(1)
				for _, cand := range []*big.Int{ch, new(big.Int).Mod(new(big.Int).Neg(ch), N3), new(big.Int).Mod(mul(ch, bi(2)), N3), new(big.Int).Mod(new(big.Int).Neg(mul(ch, bi(2))), N3)} {
					if rt, ok := verifhooks.ModSqrt(cand, []*big.Int{a, b, c}); ok {
						resp = rt
						break
					}
				}
				pr.Responses = append(pr.Responses, resp)
			}
			return keyproof.VerifPrimePowerProductVerifyStructure(pr) && keyproof.VerifPrimePowerProductVerifyProof(N3, challenge, bi(1), pr)
		})
		cheat("primepower", "a*b*c: honest builder given (a, b*c)", func() bool {
			pr := keyproof.VerifPrimePowerProductBuildProof(a, mul(b, c), challenge, bi(1))
			return keyproof.VerifPrimePowerProductVerifyProof(N3, challenge, bi(1), pr)
		})
		// --- disjoint prime product: p, q = 1 mod s for a prime s > 1024, so s | gcd(N-1, phi(N))
		s := bi(1031)
		cond := func(x *big.Int) bool { return new(big.Int).Mod(x, s).Cmp(one) == 0 }
		ps, qs := randPrime(rng, bits, cond), randPrime(rng, bits, cond)
		Ns := mul(ps, qs)
		cheat("disjoint", "p=q=1 mod 1031: honest builder", func() bool {
			pr := keyproof.VerifDisjointPrimeProductBuildProof(ps, qs, challenge, bi(2))
			return keyproof.VerifDisjointPrimeProductVerifyProof(Ns, challenge, bi(2), pr)
		})
		cheat("disjoint", "p=q=1 mod 1031: roots with the exponent inverted modulo phi/1031^k", func() bool {
			phiS := mul(sub(ps, one), sub(qs, one))
			for new(big.Int).Mod(phiS, s).Sign() == 0 {
				phiS.Div(phiS, s)
			}
			odd := sub(Ns, one)
			for odd.Bit(0) == 0 {
				odd.Rsh(odd, 1)
			}
			for new(big.Int).Mod(odd, s).Sign() == 0 {
				odd.Div(odd, s)
			}
			inv := new(big.Int).ModInverse(odd, phiS)
			if inv == nil {
				inv = bi(1)
			}
			var pr keyproof.DisjointPrimeProductProof
			for i := 0; i < 8; i++ {
				ch := refimpl.GetHashNumber(challenge, bi(2), i, uint(Ns.BitLen()))
				ch.Mod(ch, Ns)
				pr.Responses = append(pr.Responses, new(big.Int).Exp(ch, inv, Ns))
			}
			return keyproof.VerifDisjointPrimeProductVerifyStructure(pr) && keyproof.VerifDisjointPrimeProductVerifyProof(Ns, challenge, bi(2), pr)
		})
		cheat("disjoint", "prime modulus", func() bool {
			pr := keyproof.VerifDisjointPrimeProductBuildProof(a, one, challenge, bi(2))
			return keyproof.VerifDisjointPrimeProductVerifyProof(a, challenge, bi(2), pr)
		})
		// --- almost safe prime product: (p-1)/2 composite
		u, v := randPrime(rng, bits/2, nil), randPrime(rng, bits/2, nil)
		var pc *big.Int
		for {
			pc = add(mul(mul(u, v), bi(2)), one)
			if pc.Go().ProbablyPrime(20) {
				break
			}
			u = randPrime(rng, bits/2, nil)
		}
		Nc := mul(pc, q)
		cheat("almostsafe", "(p-1)/2 = u*v composite: honest builder fed the composite half", func() bool {
			_, pr := keyproof.VerifAlmostSafePrimeProductBuild(mul(u, v), qp, challenge, bi(3))
			return keyproof.VerifAlmostSafePrimeProductVerifyProof(Nc, challenge, bi(3), pr)
		})
		cheat("almostsafe", "good proof presented for the other modulus", func() bool {
			return keyproof.VerifAlmostSafePrimeProductVerifyProof(Nc, challenge, bi(3), aspp)
		})
		// --- quasi safe prime product side conditions
		cheat("quasisafe", "N != 5 mod 8 (proof of a good key, modulus shifted by a multiple of 8 plus 4)", func() bool {
			return keyproof.VerifQuasiSafePrimeProductVerifyProof(add(n, bi(4)), challenge, qspp)
		})
		// a modulus whose second factor is Q = 4q'+1 (not an almost safe prime), chosen so that all four sub-protocols can be answered
		// honestly by someone who knows the factorisation: only the N = 5 (mod 8) side condition stands in the way
		{
			findP := func(start *big.Int, res, mod int64, ok func(*big.Int) bool) *big.Int {
				c := cp(start)
				for new(big.Int).Mod(c, bi(mod)).Int64() != res {
					c.Add(c, one)
				}
				for ; ; c.Add(c, bi(mod)) {
					if c.Go().ProbablyPrime(30) && ok(c) {
						return cp(c)
					}
				}
			}
			ppB := findP(add(pow2(uint(bits)), randBig(rng, bits-2)), 5, 8, func(v *big.Int) bool { return add(mul(v, bi(2)), one).Go().ProbablyPrime(30) })
			PB := add(mul(ppB, bi(2)), one)
			qpB := findP(add(pow2(uint(bits)+1), randBig(rng, bits-2)), 3, 4, func(v *big.Int) bool {
				q := add(mul(v, bi(4)), one)
				return q.Go().ProbablyPrime(30) && new(big.Int).Mod(mul(PB, q), bi(3)).Cmp(one) == 0
			})
			QB := add(mul(qpB, bi(4)), one)
			NB := mul(PB, QB)
			phiB := mul(sub(PB, one), sub(QB, one))
			cheat("quasisafe", "N = (2p'+1)(4q'+1) = 7 mod 8 with all four sub-proofs answered honestly", func() bool {
				// generalised almost-safe-prime-product prover (phi = 8p'q', odd part p'q')
				nonce := randBig(rng, 256)
				var commits, logs []*big.Int
				for i := 0; i < 250; i++ {
					base := refimpl.GetHashNumber(nonce, nil, i, uint(NB.BitLen()))
					base.Mod(base, NB)
					lg := new(big.Int).Mod(randBig(rng, phiB.BitLen()+64), phiB)
					commits = append(commits, new(big.Int).Exp(base, lg, NB))
					logs = append(logs, lg)
				}
				ch := refimpl.HashCommit(append([]*big.Int{NB}, commits...), false)
				odd := mul(ppB, qpB)
				half := new(big.Int).ModInverse(bi(2), odd)
				aspp := keyproof.AlmostSafePrimeProductProof{Nonce: nonce, Commitments: commits}
				for i := 0; i < 250; i++ {
					xx := refimpl.GetHashNumber(ch, bi(3), i, uint(2*NB.BitLen()))
					lg := new(big.Int).Mod(add(logs[i], xx), phiB)
					x1 := new(big.Int).Mod(lg, odd)
					x3 := new(big.Int).Mod(mul(half, x1), odd)
					var root *big.Int
					for _, xi := range []*big.Int{x1, sub(odd, x1), x3, sub(odd, x3)} {
						if rt, ok := verifhooks.ModSqrt(xi, []*big.Int{ppB, qpB}); ok {
							root = rt
							break
						}
					}
					if root == nil {
						return false // construction failed; nothing to present
					}
					aspp.Responses = append(aspp.Responses, root)
				}
				var pr keyproof.QuasiSafePrimeProductProof
				pr.SFproof = keyproof.VerifSquareFreeBuildProof(NB, phiB, ch, bi(0))
				pr.PPPproof = keyproof.VerifPrimePowerProductBuildProof(PB, QB, ch, bi(1))
				pr.DPPproof = keyproof.VerifDisjointPrimeProductBuildProof(PB, QB, ch, bi(2))
				pr.ASPPproof = aspp
				subOK := keyproof.VerifSquareFreeVerifyProof(NB, ch, bi(0), pr.SFproof) && keyproof.VerifPrimePowerProductVerifyProof(NB, ch, bi(1), pr.PPPproof) &&
					keyproof.VerifDisjointPrimeProductVerifyProof(NB, ch, bi(2), pr.DPPproof) && keyproof.VerifAlmostSafePrimeProductVerifyProof(NB, ch, bi(3), pr.ASPPproof)
				if subOK {
					r.Add("bad_modulus_with_all_subproofs_valid", 1)
				}
				return keyproof.VerifQuasiSafePrimeProductVerifyProof(NB, ch, pr)
			})
		}
		small := bi(1019)
		cheat("quasisafe", "modulus with the factor 1019", func() bool {
			return keyproof.VerifQuasiSafePrimeProductVerifyProof(mul(small, q), challenge, qspp)
		})
		cheat("quasisafe", "other challenge", func() bool {
			return keyproof.VerifQuasiSafePrimeProductVerifyProof(n, add(challenge, one), qspp)
		})
		cheat("quasisafe", "sub-proofs of two good keys mixed", func() bool {
			pp2, qp2, _ := provableKey(bits)
			o := keyproof.VerifQuasiSafePrimeProductBuild(pp2, qp2, challenge)
			m := qspp
			m.SFproof = o.SFproof
			return keyproof.VerifQuasiSafePrimeProductVerifyProof(n, challenge, m)
		})
	}
}

// c17Barrier is a progress follower that holds every verification at the start of its commitment-rebuilding phase until all
// parties have finished their structure checks (or ended): the one schedule in which state kept on the shared structure by one
// verification is seen by another.
type c17Barrier struct {
	mu      sync.Mutex
	cond    *sync.Cond
	parties int
	arrived int
	ended   int
}

func (b *c17Barrier) StepStart(desc string, _ int) {
	if desc != "Rebuilding commitments" {
		return
	}
	b.mu.Lock()
	b.arrived++
	b.cond.Broadcast()
	for b.arrived+b.ended < b.parties {
		b.cond.Wait()
	}
	b.mu.Unlock()
}
func (b *c17Barrier) Tick()     {}
func (b *c17Barrier) StepDone() {}
func (b *c17Barrier) end() {
	b.mu.Lock()
	b.ended++
	b.cond.Broadcast()
	b.mu.Unlock()
}

// c17Interleaved: two (three) different honest proofs of one key are verified at the same time on ONE structure object, in the
// schedule where all structure checks come before all commitment rebuilding. The structure is the per-key statement; every proof
// has to be judged on its own content whatever else is being verified.
func c17Interleaved(r *mon.Run) {
	for _, parties := range []int{2, 3} {
		pp, qp, n := provableKey(48)
		s := keyproof.NewValidKeyProofStructure(n, []*big.Int{bi(36), bi(49)})
		proofs := make([]keyproof.ValidKeyProof, parties)
		for i := range proofs {
			inflight(fmt.Sprintf("proof #%d built on one structure object for the interleaved verifications", i))
			built := s.BuildProof(pp, qp)
			inflight("")
			jb, err := json.Marshal(built)
			if err != nil || json.Unmarshal(jb, &proofs[i]) != nil {
				r.Inconclusive("key proof does not survive a JSON round trip")
				return
			}
		}
		// one altered proof among them: it must stay rejected, the others accepted
		bad := parties - 1
		if parties == 3 {
			proofs[bad].PprimeIsPrimeProof.PreaCommit.Commit = add(proofs[bad].PprimeIsPrimeProof.PreaCommit.Commit, bigOne)
		}
		bar := &c17Barrier{parties: parties}
		bar.cond = sync.NewCond(&bar.mu)
		old := keyproof.Follower
		keyproof.Follower = bar
		res := make([]bool, parties)
		pvs := make([]any, parties)
		var wg sync.WaitGroup
		inflight(fmt.Sprintf("%d proofs verified at the same time on one structure object", parties))
		for i := 0; i < parties; i++ {
			wg.Add(1)
			go func(i int) {
				defer wg.Done()
				defer bar.end()
				pvs[i], _ = mon.Try(func() { res[i] = s.VerifyProof(proofs[i]) })
			}(i)
		}
		wg.Wait()
		inflight("")
		keyproof.Follower = old
		for i := 0; i < parties; i++ {
			desc := fmt.Sprintf("%d verifications on one structure, structure checks before rebuilding, proof #%d", parties, i)
			r.Distinct("interleaved", desc)
			want := !(parties == 3 && i == bad)
			r.Eval("interleaved", outcome(res[i], pvs[i]))
			switch {
			case pvs[i] != nil:
				r.PanicSeen(fmt.Sprint(pvs[i]))
			case want && !res[i]:
				r.Violation("C17/honest-key-proof-rejected/interleaved", "an honest key proof is rejected when another proof is verified on the same structure at the same time ("+desc+")", map[string]any{"case": desc})
			case !want && res[i]:
				r.Violation("C17/altered-proof-accepted/interleaved", "an altered key proof is accepted when other proofs are verified on the same structure at the same time ("+desc+")", map[string]any{"case": desc})
			}
		}
	}
	r.FloorFam("interleaved", 5)
}
