package props

import (
	"errors"

	"github.com/privacybydesign/gabi"
	"github.com/privacybydesign/gabi/big"
	"github.com/privacybydesign/gabi/gabikeys"

	"verifharness/refimpl"
	"verifharness/world"
)

// kssState plays the keyshare server.
type kssState struct {
	secret *big.Int
	keys   map[string]*gabikeys.PublicKey // participating keys by id
}

func newKss(keys ...*world.Key) *kssState {
	s, err := gabi.NewKeyshareSecret()
	if err != nil {
		panic(err)
	}
	k := &kssState{secret: s, keys: map[string]*gabikeys.PublicKey{}}
	for _, key := range keys {
		k.keys[key.Name] = key.PK
	}
	return k
}

// P returns the server's public share R_0^secret for a key.
func (k *kssState) P(key *world.Key) *big.Int {
	return new(big.Int).Exp(key.PK.R[0], k.secret, key.PK.N)
}

func (k *kssState) participates(pk *gabikeys.PublicKey) bool {
	for _, p := range k.keys {
		if p == pk {
			return true
		}
	}
	return false
}

// kssTranscript is everything exchanged in one run of the keyshare protocol.
type kssTranscript struct {
	randomizers   map[string]*big.Int
	commReq       gabi.KeyshareCommitmentRequest
	hashInput     []gabi.KeyshareUserChallengeInput[string]
	kssRandomizer *big.Int
	kssComm       []*gabi.ProofPCommitment
	respReq       gabi.KeyshareResponseRequest[string]
	challenge     *big.Int
	proofP        *gabi.ProofP
	labels        []string
}

// run executes the honest protocol up to and including the server's response.
func (k *kssState) run(builders gabi.ProofBuilderList, ctx, nonce *big.Int, issig bool) (*kssTranscript, error) {
	t := &kssTranscript{randomizers: map[string]*big.Int{"secretkey": refimpl.RandBits(gabikeys.DefaultSystemParameters[1024].LmCommit)}}
	var err error
	t.commReq, t.hashInput, err = gabi.KeyshareUserCommitmentRequest(builders, t.randomizers, k.keys)
	if err != nil {
		return nil, err
	}
	var keysSlice []*gabikeys.PublicKey
	for _, b := range builders {
		keysSlice = append(keysSlice, b.PublicKey())
	}
	t.kssRandomizer, t.kssComm, err = gabi.NewKeyshareCommitments(k.secret, keysSlice)
	if err != nil {
		return nil, err
	}
	for i, b := range builders {
		if k.participates(b.PublicKey()) {
			b.SetProofPCommitment(t.kssComm[i])
			t.labels = append(t.labels, "kss")
		} else {
			t.labels = append(t.labels, "")
		}
	}
	t.respReq, t.challenge, err = gabi.KeyshareUserResponseRequest(builders, t.randomizers, t.hashInput, ctx, nonce, issig)
	if err != nil {
		return nil, err
	}
	if ctx.Cmp(bigOne) != 0 {
		t.respReq.Context = ctx
	} else {
		t.respReq.Context = nil // wire form of the default context (the field is omitted)
	}
	t.proofP, err = gabi.KeyshareResponse(k.secret, t.kssRandomizer, t.commReq, t.respReq, k.keys)
	if err != nil {
		return nil, err
	}
	if t.proofP == nil {
		return nil, errors.New("nil ProofP without error")
	}
	return t, nil
}

// merge builds the final list from the transcript.
func (k *kssState) merge(builders gabi.ProofBuilderList, t *kssTranscript) (gabi.ProofList, error) {
	proofPs := make([]*gabi.ProofP, len(builders))
	for i, b := range builders {
		if k.participates(b.PublicKey()) {
			proofPs[i] = t.proofP
		}
	}
	return builders.BuildDistributedProofList(t.challenge, proofPs)
}

// prove runs the whole protocol.
func (k *kssState) prove(builders gabi.ProofBuilderList, ctx, nonce *big.Int, issig bool) (gabi.ProofList, error) {
	t, err := k.run(builders, ctx, nonce, issig)
	if err != nil {
		return nil, err
	}
	return k.merge(builders, t)
}
