package props

import (
	"fmt"
	"math/rand/v2"
	"runtime"
	"strings"

	"github.com/privacybydesign/gabi"
	"github.com/privacybydesign/gabi/big"
	"github.com/privacybydesign/gabi/gabikeys"

	"verifharness/mon"
	"verifharness/refimpl"
	"verifharness/world"
)

func init() {
	Registry["C03"] = &Check{
		Level: "exploration",
		Rule: "cases = (2..4 builders, disclosure or issuance each, assignment of 1..3 distinct secrets, labelling: nil | all-equal | every set partition, key sizes equal/different) with provers: library API sharing one secret-key randomiser, " +
			"and colluding holders using the reference prover (attribute 0 split, attribute 0 disclosed entirely, second R_0 response in an issuance proof); non-trivial = every member verifies on its own so that only the linkage check decides; " +
			"distinct by (family, shape, secrets, labels) hash; oracle: accepted => all members with equal label hold the same ledger secret",
		Run: runC03,
	}
}

// partitions enumerates all set partitions of n items as label vectors.
func partitions(n int) [][]int {
	var out [][]int
	var rec func(cur []int, max int)
	rec = func(cur []int, max int) {
		if len(cur) == n {
			out = append(out, append([]int{}, cur...))
			return
		}
		for l := 0; l <= max+1; l++ {
			m := max
			if l > m {
				m = l
			}
			rec(append(cur, l), m)
		}
	}
	rec(nil, -1)
	return out
}

// assignments enumerates all surjection-free assignments of up to 3 secrets to n slots (canonical: restricted growth).
func assignments(n int) [][]int {
	var out [][]int
	for _, p := range partitions(n) {
		max := 0
		for _, v := range p {
			if v > max {
				max = v
			}
		}
		if max <= 2 {
			out = append(out, p)
		}
	}
	return out
}

func labelsOf(p []int) []string {
	if p == nil {
		return nil
	}
	out := make([]string, len(p))
	for i, v := range p {
		out[i] = fmt.Sprintf("kss%d", v)
	}
	return out
}

// c03Oracle: accepted => label-wise equal secrets.
func c03Oracle(r *mon.Run, family, desc string, accepted bool, secrets []*big.Int, labels []int, list gabi.ProofList, pks []*gabikeys.PublicKey) {
	if !accepted {
		return
	}
	for i := range secrets {
		for j := i + 1; j < len(secrets); j++ {
			same := labels == nil || labels[i] == labels[j]
			if same && secrets[i].Cmp(secrets[j]) != 0 {
				r.Violation("C03/different-secrets-linked/"+family,
					fmt.Sprintf("list accepted although members %d and %d carry the same label and hold different secrets (%s)", i, j, desc),
					map[string]any{"family": family, "desc": desc, "secrets": dumpInts(secrets), "labels": labels, "list": dumpList(list), "keys": keyNames(pks)})
				return
			}
		}
	}
}

func runC03(r *mon.Run) {
	// "+lm512": the same key declaring the attribute size of the 4096-bit parameter set (keys of different size classes in one list)
	keyNames := []string{"toy384a", "toy512a", "toy384b", "toy512a+lm512"}
	if r.Thorough() {
		keyNames = []string{"toy384a", "toy512a", "toy384b", "toy512z", "fix1024a", "fix2048a", "toy512a+lm512", "toy384b+lm512"}
	}
	type job struct {
		n      int
		types  int
		assign []int
		seed   uint64
		keys   []string
	}
	rng := r.Rand("jobs")
	var jobs []job
	maxN := 4
	reps := r.Pick(3, 25)
	for rep := 0; rep < reps; rep++ {
		for n := 2; n <= maxN; n++ {
			for types := 0; types < 1<<n; types++ {
				for _, as := range assignments(n) {
					ks := make([]string, n)
					nk := 1 + rng.IntN(2)
					for i := range ks {
						ks[i] = keyNames[(rng.IntN(nk)+rng.IntN(len(keyNames)))%len(keyNames)]
					}
					if rng.IntN(2) == 0 { // equal key sizes half of the time
						for i := range ks {
							ks[i] = ks[0]
						}
					}
					jobs = append(jobs, job{n, types, as, rng.Uint64(), ks})
				}
			}
		}
	}
	mon.Parallel(len(jobs), runtime.NumCPU(), func(ji int) {
		j := jobs[ji]
		jr := rand.New(rand.NewPCG(j.seed, 3))
		pool := []*big.Int{randBig(jr, 255), randBig(jr, 255), randBig(jr, 254)}
		secrets := make([]*big.Int, j.n)
		for i, a := range j.assign {
			secrets[i] = pool[a]
		}
		keys := make([]*world.Key, j.n)
		pks := make([]*gabikeys.PublicKey, j.n)
		creds := make([]*world.Cred, j.n)
		for i := range keys {
			if strings.HasSuffix(j.keys[i], "+lm512") {
				keys[i] = world.VariantLm(world.Fixture(strings.TrimSuffix(j.keys[i], "+lm512")), 512)
			} else {
				keys[i] = world.Fixture(j.keys[i])
			}
			pks[i] = keys[i].PK
			if j.types&(1<<i) == 0 {
				c, err := keys[i].SignCred([]*big.Int{secrets[i], bi(int64(100 + i)), randBig(jr, 100)})
				if err != nil {
					panic(err)
				}
				creds[i] = c
			}
		}
		shape := fmt.Sprintf("n=%d types=%b assign=%v keys=%v", j.n, j.types, j.assign, j.keys)
		ctx, nonce := freshNonces(jr)

		// (i) library API, one shared secret-key randomiser
		build := func() (gabi.ProofList, error) {
			var builders gabi.ProofBuilderList
			for i := range keys {
				if creds[i] == nil {
					b, err := gabi.NewCredentialBuilder(pks[i], ctx, secrets[i], randBig(jr, 80), nil, nil)
					if err != nil {
						return nil, err
					}
					builders = append(builders, b)
				} else {
					b, err := creds[i].C.CreateDisclosureProofBuilder([]int{1}, nil, false)
					if err != nil {
						return nil, err
					}
					builders = append(builders, b)
				}
			}
			return builders.BuildProofList(ctx, nonce, false)
		}
		list, err := build()
		if err != nil {
			r.Eval("lib-shared", "error")
			return
		}
		labelings := [][]int{nil}
		labelings = append(labelings, partitions(j.n)...)
		for _, lab := range labelings {
			desc := fmt.Sprintf("%s labels=%v", shape, lab)
			r.Distinct("lib-shared", desc)
			ok, pv, stack := c02Verify(cloneList(list), pks, ctx, nonce, false, labelsOf(lab))
			r.Eval("lib-shared", outcome(ok, pv))
			if pv != nil {
				r.PanicSeen(mon.PanicSite(stack))
			}
			c03Oracle(r, "lib-shared", desc, ok, secrets, lab, list, pks)
			// completeness half (non-vacuity): consistent labelling of an honest list must be accepted
			consistent := true
			for a := range secrets {
				for b := a + 1; b < len(secrets); b++ {
					if (lab == nil || lab[a] == lab[b]) && secrets[a].Cmp(secrets[b]) != 0 {
						consistent = false
					}
				}
			}
			if consistent {
				r.Eval("lib-consistent", outcome(ok, pv))
				if !ok {
					r.Violation("C03/consistent-list-rejected", "honest list whose equally-labelled members share one secret is rejected ("+desc+")",
						map[string]any{"desc": desc, "list": dumpList(list)})
				}
			}
		}
		// object history: the received objects are verified (and refused), then the secret-key response of one member is overwritten
		// with its neighbour's in place and the same objects are verified again - equal responses alone must not link
		// proofs whose commitments answer for different secrets
		for a := 0; a < j.n; a++ {
			for b := 0; b < j.n; b++ {
				if a == b || secrets[a].Cmp(secrets[b]) == 0 {
					continue
				}
				obj := cloneList(list)
				ok0, _, _ := c02Verify(obj, pks, ctx, nonce, false, nil)
				src := obj[a].SecretKeyResponse()
				if ok0 || src == nil {
					continue
				}
				switch q := obj[b].(type) {
				case *gabi.ProofD:
					q.AResponses[0] = cp(src)
				case *gabi.ProofU:
					q.SResponse = cp(src)
				}
				desc := fmt.Sprintf("%s member %d's secret-key response overwritten with member %d's on objects that were verified before", shape, b, a)
				r.Distinct("equalised-reused-objects", desc)
				ok, pv, _ := c02Verify(obj, pks, ctx, nonce, false, nil)
				r.Eval("equalised-reused-objects", outcome(ok, pv))
				c03Oracle(r, "equalised-reused-objects", desc, ok, secrets, nil, obj, pks)
			}
		}
		if ji%97 == 0 {
			r.Sample(map[string]any{"family": "lib-shared", "shape": shape, "labelings": len(labelings)})
		}
		// wrong label-list length
		for _, l := range []int{1, j.n - 1, j.n + 1} {
			if l == j.n || l == 0 {
				continue
			}
			lab := make([]string, l)
			ok, pv, _ := c02Verify(cloneList(list), pks, ctx, nonce, false, lab)
			r.Eval("label-length", outcome(ok, pv))
			if ok {
				r.Violation("C03/label-list-length-ignored", fmt.Sprintf("list of %d proofs accepted with %d labels", j.n, l), map[string]any{"shape": shape})
			}
		}

		// (ii) colluding holders with pooled secrets, reference prover; only for pairs with different secrets
		for a := 0; a < j.n; a++ {
			for b := 0; b < j.n; b++ {
				if a == b || secrets[a].Cmp(secrets[b]) == 0 {
					continue
				}
				c03Collude(r, jr, shape, keys, creds, secrets, a, b, ctx, nonce)
			}
		}
	})
	r.FloorAccept("lib-consistent", 20)
	r.FloorFam("lib-shared", 100)
	r.FloorFam("collude-extraR0", 10)
	r.FloorFam("collude-disclose0", 10)
	r.FloorFam("collude-split0", 10)
	r.FloorFam("collude-crt", 10)
	r.FloorFam("collude-mirrored", 10)
	r.FloorFam("collude-own-challenge", 10)
	r.FloorFam("equalised-reused-objects", 50)
}

// c03Collude: member a is proved honestly for secret s_a; member b holds s_b != s_a and tries to present the same secret-key response.
func c03Collude(r *mon.Run, jr *rand.Rand, shape string, keys []*world.Key, creds []*world.Cred, secrets []*big.Int, a, b int, ctx, nonce *big.Int) {
	pks := []*gabikeys.PublicKey{keys[a].PK, keys[b].PK}
	sec := []*big.Int{secrets[a], secrets[b]}
	rs := refimpl.RandBits(592)
	mkHonest := func(i int) refimpl.Prover {
		if creds[i] != nil {
			dis, hid := hiddenOf(creds[i], []int{1})
			p := refimpl.NewDProver(keys[i].PK, creds[i].C.Signature, dis, hid)
			p.R[0] = rs
			return p
		}
		return refimpl.NewUProver(keys[i].PK, map[int]*big.Int{0: secrets[i]}, rs)
	}
	run := func(family, desc string, pb refimpl.Prover) {
		list, _ := refimpl.ProveList([]refimpl.Prover{mkHonest(a), pb}, ctx, nonce, false)
		for _, lab := range [][]int{nil, {0, 0}} {
			d := fmt.Sprintf("%s a=%d b=%d %s labels=%v", shape, a, b, desc, lab)
			r.Distinct(family, d)
			ok, pv, stack := c02Verify(cloneList(list), pks, ctx, nonce, false, labelsOf(lab))
			r.Eval(family, outcome(ok, pv))
			if pv != nil {
				r.PanicSeen(mon.PanicSite(stack))
			}
			c03Oracle(r, family, d, ok, sec, lab, list, pks)
		}
		// the same colluder placed FIRST, with the list's challenge computed over the other member's contribution only: a
		// member whose contribution the verifier cannot (or does not) compute must not leave the list verifiable
		ph := mkHonest(a)
		hc := ph.Commit()
		pb.Commit()
		c := refimpl.Challenge(ctx, nonce, hc, false)
		list2 := gabi.ProofList{pb.RespondProof(c), ph.RespondProof(c)}
		pks2 := []*gabikeys.PublicKey{pks[1], pks[0]}
		sec2 := []*big.Int{sec[1], sec[0]}
		for _, lab := range [][]int{nil, {0, 0}} {
			d := fmt.Sprintf("%s a=%d b=%d %s, colluder first and left out of the challenge, labels=%v", shape, a, b, desc, lab)
			r.Distinct(family+"-unhashed", d)
			ok, pv, stack := c02Verify(cloneList(list2), pks2, ctx, nonce, false, labelsOf(lab))
			r.Eval(family+"-unhashed", outcome(ok, pv))
			if pv != nil {
				r.PanicSeen(mon.PanicSite(stack))
			}
			c03Oracle(r, family+"-unhashed", d, ok, sec2, lab, list2, pks2)
		}
	}
	// mirrored secret: an issuance commitment to -s_a with randomiser -rs answers with exactly the negated response of member a
	// (in memory only: the wire encoding has no negative integers). Linking must compare the values, not their magnitudes.
	{
		negS := new(big.Int).Neg(secrets[a])
		pu := refimpl.NewUProver(keys[b].PK, map[int]*big.Int{0: negS}, new(big.Int).Neg(rs))
		list, _ := refimpl.ProveList([]refimpl.Prover{mkHonest(a), pu}, ctx, nonce, false)
		for _, lab := range [][]int{nil, {0, 0}} {
			d := fmt.Sprintf("%s a=%d commitment to the negated secret with the negated randomiser labels=%v", shape, a, lab)
			r.Distinct("collude-mirrored", d)
			ok, pv, stack := c02Verify(cloneList(list), pks, ctx, nonce, false, labelsOf(lab))
			r.Eval("collude-mirrored", outcome(ok, pv))
			if pv != nil {
				r.PanicSeen(mon.PanicSite(stack))
			}
			c03Oracle(r, "collude-mirrored", d, ok, []*big.Int{secrets[a], negS}, lab, list, pks)
		}
	}
	// own challenge: the second member answers another challenge than the list's (c' = k*c) and so reaches member a's response
	// with a smaller secret s_a/k and the same randomiser. Every member has to be verified against the list's challenge.
	for _, k := range []int64{0, 2, 3} {
		var sB, kk *big.Int
		switch {
		case k == 0: // secret 1, c' = c*s_a
			sB, kk = bi(1), cp(secrets[a])
		case new(big.Int).Mod(secrets[a], bi(k)).Sign() == 0:
			sB, kk = new(big.Int).Quo(secrets[a], bi(k)), bi(k)
		default:
			continue
		}
		if sB.Cmp(secrets[a]) == 0 {
			continue
		}
		pa := mkHonest(a)
		pu := refimpl.NewUProver(keys[b].PK, map[int]*big.Int{0: sB}, rs)
		contrib := append(pa.Commit(), pu.Commit()...)
		c := refimpl.Challenge(ctx, nonce, contrib, false)
		list := gabi.ProofList{pa.RespondProof(c), pu.Respond(mul(c, kk))}
		for _, lab := range [][]int{nil, {0, 0}} {
			d := fmt.Sprintf("%s a=%d second member is a commitment to s_a/k answering k*c (k=%d, 0: secret 1) labels=%v", shape, a, k, lab)
			r.Distinct("collude-own-challenge", d)
			ok, pv, stack := c02Verify(cloneList(list), pks, ctx, nonce, false, labelsOf(lab))
			r.Eval("collude-own-challenge", outcome(ok, pv))
			if pv != nil {
				r.PanicSeen(mon.PanicSite(stack))
			}
			c03Oracle(r, "collude-own-challenge", d, ok, []*big.Int{secrets[a], sB}, lab, list, pks)
		}
	}
	if creds[b] != nil {
		pk := keys[b].PK
		// split attribute 0: disclosed part s_b - s_a (or its negative counterpart), hidden remainder s_a
		diff := sub(secrets[b], secrets[a])
		if diff.Sign() >= 0 {
			dis, hid := hiddenOf(creds[b], []int{1})
			dis[0] = diff
			hid[0] = cp(secrets[a])
			p := refimpl.NewDProver(pk, creds[b].C.Signature, dis, hid)
			p.R[0] = rs
			run("collude-split0", "split attr0", p)
		} else {
			// disclosed part 0, hidden remainder s_b with a randomiser chosen as rs + c*(s_a - s_b) is impossible before c is known;
			// the available variant: disclose x=0 and hide s_b (honest value) - responses then differ, must be rejected or oracle-consistent
			dis, hid := hiddenOf(creds[b], []int{1})
			dis[0] = bi(0)
			p := refimpl.NewDProver(pk, creds[b].C.Signature, dis, hid)
			p.R[0] = rs
			run("collude-split0", "split attr0 x=0", p)
		}
		// disclose attribute 0 entirely in b (no secret-key response at all)
		dis, hid := hiddenOf(creds[b], []int{0, 1})
		p := refimpl.NewDProver(pk, creds[b].C.Signature, dis, hid)
		run("collude-disclose0", "b discloses attr0", p)
		if creds[a] != nil && creds[a].C.Signature.E.Cmp(creds[b].C.Signature.E) != 0 {
			// pooled secrets + malleability in base R_0: (A*R0^t, e, v) is a signature over s - t*e. With M = s_a mod e_a
			// = s_b mod e_b (CRT) both credentials are re-expressed over the one value M and shown with one identical,
			// genuinely computed response rs + c*M; only its size (about 2*l_e bits) distinguishes it.
			ea, eb := creds[a].C.Signature.E, creds[b].C.Signature.E
			inv := new(big.Int).ModInverse(ea, eb)
			if inv != nil {
				// M = s_a + e_a * ((s_b - s_a) * e_a^-1 mod e_b)
				k := new(big.Int).Mod(mul(sub(secrets[b], secrets[a]), inv), eb)
				M := add(secrets[a], mul(ea, k))
				for _, shift := range []int64{0, 1} {
					Mk := add(M, mul(bi(shift), mul(ea, eb)))
					maul := func(i int) *refimpl.DProver {
						sg := creds[i].C.Signature
						t := new(big.Int).Quo(sub(secrets[i], Mk), sg.E)
						A2 := new(big.Int).Mod(mul(sg.A, refimpl.PowSigned(keys[i].PK.R[0], t, keys[i].PK.N)), keys[i].PK.N)
						dis, hid := hiddenOf(creds[i], []int{1})
						hid[0] = cp(Mk)
						pr := refimpl.NewDProver(keys[i].PK, &gabi.CLSignature{A: A2, E: cp(sg.E), V: cp(sg.V)}, dis, hid)
						pr.R[0] = rs
						return pr
					}
					list, _ := refimpl.ProveList([]refimpl.Prover{maul(a), maul(b)}, ctx, nonce, false)
					for _, lab := range [][]int{nil, {0, 0}} {
						d := fmt.Sprintf("%s a=%d b=%d both signatures re-expressed over the CRT value M+%d*e_a*e_b (%d bits) labels=%v", shape, a, b, shift, Mk.BitLen(), lab)
						r.Distinct("collude-crt", d)
						ok, pv, stack := c02Verify(cloneList(list), pks, ctx, nonce, false, labelsOf(lab))
						r.Eval("collude-crt", outcome(ok, pv))
						if pv != nil {
							r.PanicSeen(mon.PanicSite(stack))
						}
						c03Oracle(r, "collude-crt", d, ok, sec, lab, list, pks)
					}
				}
			}
		}
		if creds[a] != nil {
			// both disclose attribute 0 entirely
			disA, hidA := hiddenOf(creds[a], []int{0, 1})
			pa := refimpl.NewDProver(keys[a].PK, creds[a].C.Signature, disA, hidA)
			dis, hid := hiddenOf(creds[b], []int{0, 1})
			pb := refimpl.NewDProver(pk, creds[b].C.Signature, dis, hid)
			list, _ := refimpl.ProveList([]refimpl.Prover{pa, pb}, ctx, nonce, false)
			d := fmt.Sprintf("%s a=%d b=%d both disclose attr0", shape, a, b)
			r.Distinct("collude-disclose0", d)
			ok, pv, stack := c02Verify(cloneList(list), pks, ctx, nonce, false, nil)
			r.Eval("collude-disclose0", outcome(ok, pv))
			if pv != nil {
				r.PanicSeen(mon.PanicSite(stack))
			}
			c03Oracle(r, "collude-disclose0", d, ok, sec, nil, list, pks)
		}
	} else {
		// issuance commitment to s_b, SResponse equalised to rs + c*s_a, remainder proved by a second R_0 response
		pu := refimpl.NewUProver(keys[b].PK, map[int]*big.Int{0: secrets[b]}, rs)
		pu.SSecret = cp(secrets[a])
		pu.ExtraR0 = true
		run("collude-extraR0", "extra R0 response", pu)
		// override form: MUserResponses[0] is the complete, genuine response for R_0 and SResponse is simply copied from member a
		pu3 := refimpl.NewUProver(keys[b].PK, map[int]*big.Int{0: secrets[b]}, nil)
		pu3.Override, pu3.STargetRand, pu3.STargetSecret = true, rs, cp(secrets[a])
		run("collude-extraR0", "R0 response moved into m_user_responses[0], s_response copied", pu3)
		// same, commitment carrying an additional blind attribute
		pu2 := refimpl.NewUProver(keys[b].PK, map[int]*big.Int{0: secrets[b], 2: randBig(jr, 200)}, rs)
		pu2.SSecret = cp(secrets[a])
		pu2.ExtraR0 = true
		run("collude-extraR0", "extra R0 response + blind attr", pu2)
	}
}
