package props

import (
	"bufio"
	"encoding/hex"
	"encoding/json"
	"fmt"
	"math/rand/v2"
	"os"
	"os/exec"
	"path/filepath"
	"runtime"
	"sort"
	"strings"
	"sync"

	"github.com/privacybydesign/gabi"
	"github.com/privacybydesign/gabi/big"
	"github.com/privacybydesign/gabi/gabikeys"
	"github.com/privacybydesign/gabi/rangeproof"
	"github.com/privacybydesign/gabi/verifhooks"

	"verifharness/mon"
	"verifharness/refimpl"
	"verifharness/world"
)

func init() {
	Registry["C15"] = &Check{
		Level: "exploration",
		Rule: "inputs = integer lists of length 0..300 with entries of 0..5000 bits including 0, negatives, top byte 0x80/0x7f/0xff, entries and whole sequences whose DER content lengths cross 127/128/255/256/65535/65536 bytes, both marker values; for the expansion all four nil-combinations of (a,b), indices 0..300, bit lengths 1..2048; " +
			"non-trivial = every generated input (each is compared in full); distinct by input hash; oracle: HashCommit / GetHashNumber / IntHashSha256 equal an independently written DER+SHA-256 reference, a set of neighbours of each input (marker flipped, unequal entries swapped, entry changed/appended/dropped, bytes re-split between adjacent integers, count changed) hashes differently, " +
			"and for library-made proofs and lists (plain, non-revocation, range, issuance, multi-proof) the challenge C equals the reference hash over (context, contributions in protocol order recomputed by the harness from the proof, nonce); a sample of evaluations is re-derived by a Python implementation (thorough tier)",
		Run: runC15,
	}
}

type c15logger struct {
	mu sync.Mutex
	w  *bufio.Writer
	f  *os.File
	n  int
}

func (l *c15logger) log(rec map[string]any) {
	if l == nil || l.w == nil {
		return
	}
	b, err := json.Marshal(rec)
	if err != nil {
		return
	}
	l.mu.Lock()
	l.w.Write(b)
	l.w.WriteByte('\n')
	l.n++
	l.mu.Unlock()
}

func decs(vs []*big.Int) []string {
	out := make([]string, len(vs))
	for i, v := range vs {
		out[i] = v.String()
	}
	return out
}

// c15Entry draws one integer with an interesting shape.
func c15Entry(rng *rand.Rand) *big.Int {
	var v *big.Int
	switch rng.IntN(14) {
	case 0:
		return bi(0)
	case 1:
		return bi(int64(rng.IntN(3)) - 1)
	case 2: // top byte 0x80
		n := 1 + rng.IntN(40)
		b := make([]byte, n)
		b[0] = 0x80
		for i := 1; i < n; i++ {
			b[i] = byte(rng.Uint32())
		}
		v = new(big.Int).SetBytes(b)
	case 3: // top byte 0x7f
		n := 1 + rng.IntN(40)
		b := make([]byte, n)
		b[0] = 0x7f
		for i := 1; i < n; i++ {
			b[i] = byte(rng.Uint32())
		}
		v = new(big.Int).SetBytes(b)
	case 4: // all 0xff
		n := 1 + rng.IntN(40)
		b := make([]byte, n)
		for i := range b {
			b[i] = 0xff
		}
		v = new(big.Int).SetBytes(b)
	case 5: // exact powers of two and neighbours
		v = add(pow2(uint(rng.IntN(2100))), bi(int64(rng.IntN(3))-1))
	case 6: // content length boundaries
		n := []int{126, 127, 128, 129, 254, 255, 256, 257}[rng.IntN(8)]
		b := make([]byte, n)
		for i := range b {
			b[i] = byte(rng.Uint32())
		}
		b[0] |= 1
		v = new(big.Int).SetBytes(b)
	case 7:
		v = randBig(rng, 1+rng.IntN(5000))
	default:
		v = randBig(rng, 1+rng.IntN(600))
	}
	if rng.IntN(5) == 0 {
		v.Neg(v)
	}
	return v
}

func runC15(r *mon.Run) {
	var lg *c15logger
	var logPath string
	if r.Thorough() {
		dir, err := os.MkdirTemp("", "c15log")
		if err == nil {
			logPath = filepath.Join(dir, "c15.jsonl")
			f, err := os.Create(logPath)
			if err == nil {
				lg = &c15logger{w: bufio.NewWriterSize(f, 1<<20), f: f}
			}
			defer os.RemoveAll(dir)
		}
	}
	nLists := r.Pick(6000, 600000)
	rng := r.Rand("lists")
	seeds := make([]uint64, nLists)
	for i := range seeds {
		seeds[i] = rng.Uint64()
	}
	mon.Parallel(nLists, runtime.NumCPU(), func(i int) {
		jr := rand.New(rand.NewPCG(seeds[i], 15))
		n := jr.IntN(301)
		if i%3 != 0 {
			n = jr.IntN(12)
		}
		if i < 301 {
			n = i // every length once
		}
		vals := make([]*big.Int, n)
		for k := range vals {
			vals[k] = c15Entry(jr)
		}
		c15List(r, jr, vals, lg, i)
	})
	// sequences whose total DER length crosses the 2- and 3-byte length forms
	for _, total := range []int{120, 126, 127, 128, 129, 250, 255, 256, 257, 65530, 65535, 65536, 65540, 70000} {
		for _, issig := range []bool{false, true} {
			b := make([]byte, total)
			for i := range b {
				b[i] = byte(rng.Uint32())
			}
			b[0] = 0x55
			c15List(r, rng, []*big.Int{new(big.Int).SetBytes(b)}, lg, -1)
			_ = issig
			// several medium entries adding up to about total
			var vs []*big.Int
			left := total
			for left > 0 {
				n := 1 + rng.IntN(60)
				if n > left {
					n = left
				}
				bb := make([]byte, n)
				for i := range bb {
					bb[i] = byte(rng.Uint32())
				}
				vs = append(vs, new(big.Int).SetBytes(bb))
				left -= n + 2
			}
			c15List(r, rng, vs, lg, -1)
		}
	}
	c15Expansion(r, lg)
	c15Concurrent(r)
	c15Challenge(r)
	c15Proofs(r)
	if lg != nil {
		lg.w.Flush()
		lg.f.Close()
		c15Python(r, logPath, lg.n)
	}
	r.FloorFam("hashcommit", 5000)
	r.FloorFam("neighbour", 20000)
	r.FloorFam("gethashnumber", 1000)
	r.FloorFam("inthash", 500)
	r.FloorAccept("proof-challenge", 100)
}

func c15List(r *mon.Run, jr *rand.Rand, vals []*big.Int, lg *c15logger, idx int) {
	for _, issig := range []bool{false, true} {
		var got *big.Int
		pv, _ := mon.Try(func() { got = verifhooks.HashCommit(vals, issig) })
		want := refimpl.HashCommit(vals, issig)
		r.Eval("hashcommit", "accept")
		r.Distinct("hc", want.String())
		if pv != nil || got == nil || got.Cmp(want) != 0 {
			r.Violation("C15/hashcommit-differs-from-reference", fmt.Sprintf("HashCommit(list of %d, issig=%v) = %s, reference %s (panic=%v)", len(vals), issig, dumpInt(got), dumpInt(want), pv),
				map[string]any{"values": decs(vals), "issig": issig, "got": dumpInt(got), "reference": dumpInt(want)})
			return
		}
		if got.Sign() < 0 || got.BitLen() > 256 {
			r.Violation("C15/challenge-not-unsigned-256-bit", "HashCommit result is not an unsigned 256-bit integer", map[string]any{"values": decs(vals), "issig": issig, "got": dumpInt(got)})
		}
		if lg != nil && (idx%10 == 0 || idx < 0) && len(vals) < 60 {
			lg.log(map[string]any{"fn": "HashCommit", "values": decs(vals), "issig": issig, "out": got.String()})
		}
		// neighbours must hash differently (library side)
		nb := func(name string, nv []*big.Int, nsig bool) {
			var h *big.Int
			pv, _ := mon.Try(func() { h = verifhooks.HashCommit(nv, nsig) })
			r.Eval("neighbour", "accept")
			if pv != nil || h == nil {
				return
			}
			if h.Cmp(got) == 0 {
				r.Violation("C15/distinct-inputs-same-challenge/"+name, fmt.Sprintf("HashCommit gives the same challenge for an input and its neighbour (%s)", name),
					map[string]any{"values": decs(vals), "issig": issig, "neighbour": decs(nv), "neighbour_issig": nsig})
			}
		}
		nb("marker-flipped", vals, !issig)
		nb("appended-zero", append(cloneInts(vals), bi(0)), issig)
		if len(vals) > 0 {
			nb("last-dropped", cloneInts(vals[:len(vals)-1]), issig)
			i := jr.IntN(len(vals))
			ch := cloneInts(vals)
			ch[i] = add(ch[i], bigOne)
			nb("entry+1", ch, issig)
			ng := cloneInts(vals)
			if ng[i].Sign() != 0 {
				ng[i] = new(big.Int).Neg(ng[i])
				nb("entry-negated", ng, issig)
			}
			// the count field is an INTEGER like the entries: prepend the count as an entry (sequence differs only in the count)
			nb("count-as-entry", append([]*big.Int{bi(int64(len(vals)))}, cloneInts(vals)...), issig)
		}
		if len(vals) > 1 {
			i, j := jr.IntN(len(vals)), jr.IntN(len(vals))
			if vals[i].Cmp(vals[j]) != 0 {
				sw := cloneInts(vals)
				sw[i], sw[j] = sw[j], sw[i]
				nb("swapped", sw, issig)
			}
			// re-split the bytes of two adjacent non-negative entries
			k := jr.IntN(len(vals) - 1)
			if vals[k].Sign() > 0 && vals[k+1].Sign() > 0 {
				a, b := vals[k].Bytes(), vals[k+1].Bytes()
				joined := append(append([]byte{}, a...), b...)
				cut := 1 + jr.IntN(len(joined)-1)
				if cut != len(a) {
					rs := cloneInts(vals)
					rs[k] = new(big.Int).SetBytes(joined[:cut])
					rs[k+1] = new(big.Int).SetBytes(joined[cut:])
					if rs[k].Cmp(vals[k]) != 0 || rs[k+1].Cmp(vals[k+1]) != 0 {
						nb("resplit", rs, issig)
					}
				}
			}
			// merge two entries into one (count changes, bytes stay)
			if vals[k].Sign() > 0 && vals[k+1].Sign() > 0 {
				mg := append(cloneInts(vals[:k]), new(big.Int).SetBytes(append(vals[k].Bytes(), vals[k+1].Bytes()...)))
				mg = append(mg, cloneInts(vals[k+2:])...)
				nb("merged", mg, issig)
			}
		}
	}
	if idx >= 0 && idx%1500 == 0 {
		r.Sample(map[string]any{"fn": "HashCommit", "length": len(vals), "entry_bits": bitlens(vals[:minInt(len(vals), 6)])})
	}
}

func c15Expansion(r *mon.Run, lg *c15logger) {
	rng := r.Rand("expansion")
	bitlens := []uint{1, 2, 255, 256, 257, 511, 512, 513, 1024, 2048, 0}
	n := r.Pick(1500, 120000)
	for i := 0; i < n; i++ {
		var a, b *big.Int
		if i%4 == 1 || i%4 == 3 {
			a = c15Entry(rng)
		}
		if i%4 == 2 || i%4 == 3 {
			b = c15Entry(rng)
		}
		index := rng.IntN(301)
		if i < 301 {
			index = i
		}
		bl := bitlens[rng.IntN(len(bitlens))]
		var got *big.Int
		pv, _ := mon.Try(func() { got = verifhooks.GetHashNumber(a, b, index, bl) })
		want := refimpl.GetHashNumber(a, b, index, bl)
		r.Eval("gethashnumber", "accept")
		r.Distinct("ghn", dumpInt(a), dumpInt(b), index, bl)
		if pv != nil || got == nil || got.Cmp(want) != 0 {
			r.Violation("C15/gethashnumber-differs-from-reference", fmt.Sprintf("GetHashNumber(a,b,%d,%d) differs from the reference (panic=%v)", index, bl, pv),
				map[string]any{"a": dumpInt(a), "b": dumpInt(b), "index": index, "bitlen": bl, "got": dumpInt(got), "reference": dumpInt(want)})
			continue
		}
		// the caller owns what it gets: it reduces the number in place (as the key-proof loops do) and asks again
		if i%3 == 0 {
			got.Mod(got, bi(1000003)).Add(got, bi(int64(i)))
			again := verifhooks.GetHashNumber(a, b, index, bl)
			if again == nil || again.Cmp(want) != 0 {
				r.Violation("C15/gethashnumber-differs-from-reference/after-caller-modified-result", fmt.Sprintf("GetHashNumber(a,b,%d,%d) differs from the reference when it is called again after the caller modified the first result in place", index, bl),
					map[string]any{"a": dumpInt(a), "b": dumpInt(b), "index": index, "bitlen": bl, "got": dumpInt(again), "reference": dumpInt(want)})
			}
			got = cp(want)
		}
		if lg != nil && i%4 == 0 {
			rec := map[string]any{"fn": "GetHashNumber", "a": nil, "b": nil, "index": index, "bitlen": bl, "out": got.String()}
			if a != nil {
				rec["a"] = a.String()
			}
			if b != nil {
				rec["b"] = b.String()
			}
			lg.log(rec)
		}
		// the four nil-combinations and neighbouring indices give different numbers
		if bl > 0 {
			o := verifhooks.GetHashNumber(a, b, index+1, bl)
			if o.Cmp(got) == 0 {
				r.Violation("C15/gethashnumber-index-ignored", "GetHashNumber gives the same output for index and index+1", map[string]any{"a": dumpInt(a), "b": dumpInt(b), "index": index, "bitlen": bl})
			}
			if a != nil && b != nil && a.Cmp(b) != 0 {
				o2 := verifhooks.GetHashNumber(b, a, index, bl)
				if o2.Cmp(got) == 0 {
					r.Violation("C15/gethashnumber-order-ignored", "GetHashNumber(a,b) == GetHashNumber(b,a)", map[string]any{"a": dumpInt(a), "b": dumpInt(b)})
				}
			}
		}
	}
	for i := 0; i < r.Pick(800, 60000); i++ {
		n := rng.IntN(300)
		b := make([]byte, n)
		for k := range b {
			b[k] = byte(rng.Uint32())
		}
		got := verifhooks.IntHashSha256(b)
		want := refimpl.IntHash(b)
		r.Eval("inthash", "accept")
		r.Distinct("ih", string(b))
		if got.Cmp(want) != 0 {
			r.Violation("C15/inthash-differs-from-reference", "IntHashSha256 differs from SHA-256 of the bytes", map[string]any{"hex": hex.EncodeToString(b)})
		}
		if lg != nil && i%10 == 0 {
			lg.log(map[string]any{"fn": "IntHashSha256", "hex": hex.EncodeToString(b), "out": got.String()})
		}
	}
}

// refContribD recomputes the challenge contributions of a library-made ProofD in protocol order.
// c15Challenge: the challenge over (context, contributions..., nonce) equals the reference, also when the contributions are a
// prefix of a longer list whose tail the caller goes on using (a verifier walking through a list): the tail and the prefix
// must come back unchanged.
func c15Challenge(r *mon.Run) {
	rng := r.Rand("challenge")
	for i := 0; i < r.Pick(600, 20000); i++ {
		total := 1 + rng.IntN(12)
		k := rng.IntN(total + 1)
		backing := make([]*big.Int, total, total+rng.IntN(4))
		for j := range backing {
			backing[j] = c15Entry(rng)
		}
		snapshot := cloneInts(backing)
		ctx, nonce := c15Entry(rng), c15Entry(rng)
		issig := rng.IntN(2) == 0
		var got *big.Int
		pv, _ := mon.Try(func() { got = gabi.VerifCreateChallenge(ctx, nonce, backing[:k], issig) })
		want := refimpl.Challenge(ctx, nonce, snapshot[:k], issig)
		r.Eval("challenge", outcome(pv == nil, pv))
		r.Distinct("challenge", decs(snapshot), k, issig, dumpInt(ctx), dumpInt(nonce))
		if pv != nil || got == nil || got.Cmp(want) != 0 {
			r.Violation("C15/challenge-differs-from-reference", fmt.Sprintf("the challenge over context, %d contributions and nonce differs from the reference (panic=%v)", k, pv), map[string]any{"contributions": decs(snapshot[:k]), "context": dumpInt(ctx), "nonce": dumpInt(nonce), "issig": issig})
			continue
		}
		for j := range backing {
			if backing[j] == nil || backing[j].Cmp(snapshot[j]) != 0 {
				r.Violation("C15/challenge-computation-modifies-callers-list", fmt.Sprintf("computing the challenge over the first %d of %d values changed value %d of the caller's list", k, total, j),
					map[string]any{"list": decs(snapshot), "prefix": k, "changed_index": j, "now": dumpInt(backing[j]), "nonce": dumpInt(nonce)})
				break
			}
		}
		// ... and the challenge over the whole list afterwards is still the reference value
		if k < total {
			got2 := gabi.VerifCreateChallenge(ctx, nonce, backing, issig)
			if got2.Cmp(refimpl.Challenge(ctx, nonce, snapshot, issig)) != 0 {
				r.Violation("C15/challenge-differs-from-reference/after-prefix", "the challenge over a list differs from the reference after a challenge over its prefix was computed", map[string]any{"list": decs(snapshot), "prefix": k})
			}
		}
	}
	r.FloorFam("challenge", 500)
}

// c15Concurrent calls the three functions from many goroutines at once on inputs whose reference values were computed
// beforehand: they are pure functions of their arguments, so the schedule must not matter.
func c15Concurrent(r *mon.Run) {
	rng := r.Rand("concurrent")
	type hcase struct {
		bytes []byte
		vals  []*big.Int
		sig   bool
		a, b  *big.Int
		idx   int
		bl    uint
		wantI *big.Int
		wantH *big.Int
		wantG *big.Int
	}
	nCases := r.Pick(64, 256)
	cases := make([]*hcase, nCases)
	for i := range cases {
		c := &hcase{sig: i%2 == 0, idx: rng.IntN(300), bl: []uint{256, 257, 512, 1024, 2048}[rng.IntN(5)]}
		n := []int{0, 1, 31, 33, 64, 300, 4096, 65536, 262144}[i%9]
		c.bytes = make([]byte, n)
		for k := range c.bytes {
			c.bytes[k] = byte(rng.Uint32())
		}
		for k := 0; k < 1+rng.IntN(6); k++ {
			c.vals = append(c.vals, c15Entry(rng))
		}
		c.a, c.b = c15Entry(rng), c15Entry(rng)
		c.wantI = refimpl.IntHash(c.bytes)
		c.wantH = refimpl.HashCommit(c.vals, c.sig)
		c.wantG = refimpl.GetHashNumber(c.a, c.b, c.idx, c.bl)
		cases[i] = c
	}
	G := runtime.NumCPU() * 2
	rounds := r.Pick(6, 40)
	var wg sync.WaitGroup
	for g := 0; g < G; g++ {
		wg.Add(1)
		go func(g int) {
			defer wg.Done()
			for round := 0; round < rounds; round++ {
				for k := range cases {
					c := cases[(k*7+g*13+round)%len(cases)]
					var gi, gh, gg *big.Int
					pv, _ := mon.Try(func() {
						gi = verifhooks.IntHashSha256(c.bytes)
						gh = verifhooks.HashCommit(c.vals, c.sig)
						gg = verifhooks.GetHashNumber(c.a, c.b, c.idx, c.bl)
					})
					r.Eval("concurrent", outcome(pv == nil, pv))
					if pv != nil || gi.Cmp(c.wantI) != 0 {
						r.Violation("C15/inthash-differs-from-reference/concurrent", fmt.Sprintf("IntHashSha256 called from %d goroutines at once differs from SHA-256 of the bytes (panic=%v)", G, pv), map[string]any{"hex_len": len(c.bytes), "got": dumpInt(gi), "reference": dumpInt(c.wantI)})
					}
					if pv == nil && gh.Cmp(c.wantH) != 0 {
						r.Violation("C15/hashcommit-differs-from-reference/concurrent", fmt.Sprintf("HashCommit called from %d goroutines at once differs from the reference", G), map[string]any{"values": decs(c.vals), "issig": c.sig})
					}
					if pv == nil && gg.Cmp(c.wantG) != 0 {
						r.Violation("C15/gethashnumber-differs-from-reference/concurrent", fmt.Sprintf("GetHashNumber called from %d goroutines at once differs from the reference", G), map[string]any{"a": dumpInt(c.a), "b": dumpInt(c.b), "index": c.idx, "bitlen": c.bl})
					}
				}
			}
		}(g)
	}
	wg.Wait()
	r.Set("concurrent_goroutines", G)
	r.FloorFam("concurrent", 1000)
}

func refContribD(pk *gabikeys.PublicKey, d *gabi.ProofD, revIdx int) []*big.Int {
	out := []*big.Int{d.A, refimpl.RefZTilde(pk, d)}
	if nr := d.NonRevocationProof; nr != nil {
		acc, err := refimpl.AccFromSigned(pk, nr.SignedAccumulator.Data, nr.SignedAccumulator.PKCounter)
		if err != nil {
			return nil
		}
		out = append(out, refimpl.NonrevContributions(pk, nr.Cr, nr.Cu, acc.Nu, d.C, d.AResponses[revIdx], nr.Responses)...)
	}
	idxs := make([]int, 0, len(d.RangeProofs))
	for i := range d.RangeProofs {
		idxs = append(idxs, i)
	}
	sort.Ints(idxs)
	for _, i := range idxs {
		for _, rp := range d.RangeProofs[i] {
			out = append(out, refimpl.RangeContributions(pk, i, rp.Sign, rp.A, rp.K, rp.Cs, rp.DResponses, rp.VResponses, rp.V5Response, d.AResponses[i], d.C)...)
		}
	}
	return out
}

func c15Proofs(r *mon.Run) {
	keys := []string{"toy256a", "toy512a"}
	if r.Thorough() {
		keys = []string{"toy256a", "toy512a", "fix1024a", "fix2048a"}
	}
	n := r.Pick(160, 3000)
	rng := r.Rand("proofs")
	seeds := make([]uint64, n)
	for i := range seeds {
		seeds[i] = rng.Uint64()
	}
	table := rangeproof.GenerateSquaresTable(200)
	mon.Parallel(n, runtime.NumCPU(), func(i int) {
		jr := rand.New(rand.NewPCG(seeds[i], 150))
		key := world.Fixture(keys[i%len(keys)])
		if strings.HasPrefix(key.Name, "fix") && i%8 != 0 {
			key = world.Fixture("toy256a")
		}
		pk := key.PK
		secret := randBig(jr, 250)
		ctx, nonce := freshNonces(jr)
		issig := jr.IntN(2) == 0
		nb := 1 + jr.IntN(3)
		var builders gabi.ProofBuilderList
		revIdx := make([]int, nb)
		desc := ""
		for b := 0; b < nb; b++ {
			switch jr.IntN(4) {
			case 0:
				var blind []int
				if jr.IntN(2) == 0 {
					blind = []int{0, 2}
				}
				cb, err := gabi.NewCredentialBuilder(pk, ctx, secret, randBig(jr, 80), nil, blind)
				if err != nil {
					return
				}
				builders = append(builders, cb)
				desc += "U"
			default:
				ms := []*big.Int{secret, bi(int64(100 + jr.IntN(100))), bi(int64(30 + jr.IntN(30))), attrValue(jr, jr.IntN(9), pk.Params.Lm)}
				nonrev := jr.IntN(2) == 0
				var cred *world.Cred
				var err error
				if nonrev {
					rev, _ := world.NewRev(key)
					cred, err = key.SignCredRev(ms, rev)
				} else {
					cred, err = key.SignCred(ms)
				}
				if err != nil {
					return
				}
				revIdx[b] = cred.RevIdx
				var stm map[int][]*rangeproof.Statement
				if jr.IntN(2) == 0 {
					st, _ := rangeproof.NewStatement(rangeproof.GreaterOrEqual, bi(18))
					stm = map[int][]*rangeproof.Statement{2: {st}}
					if jr.IntN(2) == 0 {
						stm[2] = append(stm[2], &rangeproof.Statement{Sign: -1, Factor: 1, Bound: bi(70), Splitter: table})
						st1, _ := rangeproof.NewStatement(rangeproof.LesserOrEqual, bi(1000))
						stm[1] = []*rangeproof.Statement{st1}
					}
				}
				var D []int
				if stm == nil || len(stm) == 1 {
					D = []int{1}
				}
				if jr.IntN(3) == 0 && D != nil {
					D = append(D, 3)
				}
				db, err := cred.C.CreateDisclosureProofBuilder(D, stm, nonrev)
				if err != nil {
					return
				}
				builders = append(builders, db)
				desc += fmt.Sprintf("D(nr=%v,rp=%d)", nonrev, len(stm))
			}
		}
		list, err := builders.BuildProofList(ctx, nonce, issig)
		if err != nil {
			return
		}
		var contrib []*big.Int
		var c *big.Int
		for b, p := range list {
			switch x := p.(type) {
			case *gabi.ProofD:
				cc := refContribD(pk, x, revIdx[b])
				if cc == nil || cc[1] == nil {
					return
				}
				contrib = append(contrib, cc...)
				c = x.C
			case *gabi.ProofU:
				contrib = append(contrib, x.U, refimpl.RefUTilde(pk, x))
				c = x.C
			}
		}
		want := refimpl.Challenge(ctx, nonce, contrib, issig)
		r.Distinct("proof", desc, i)
		same := true
		for _, p := range list {
			var pc *big.Int
			switch x := p.(type) {
			case *gabi.ProofD:
				pc = x.C
			case *gabi.ProofU:
				pc = x.C
			}
			if pc.Cmp(c) != 0 {
				same = false
			}
		}
		ok := same && c.Cmp(want) == 0
		r.Eval("proof-challenge", outcome(ok, nil))
		if !ok {
			r.Violation("C15/proof-challenge-differs-from-specification", fmt.Sprintf("challenge of a library-made list [%s] (issig=%v) is not the reference hash over (context, contributions in protocol order, nonce)", desc, issig),
				map[string]any{"shape": desc, "issig": issig, "list": dumpList(list), "context": dumpInt(ctx), "nonce": dumpInt(nonce), "key": key.Name, "reference": dumpInt(want)})
			return
		}
		// single disclosure proof through CreateDisclosureProof (always a disclosure session)
		if i%400 == 0 {
			r.Sample(map[string]any{"fn": "proof-challenge", "shape": desc, "issig": issig, "contributions": len(contrib)})
		}
	})
}

func c15Python(r *mon.Run, logPath string, n int) {
	script := filepath.Join(mon.Dir(), "pyref", "hashcommit.py")
	out, err := exec.Command("python3", script, logPath).CombinedOutput()
	r.Set("python_second_opinion", strings.TrimSpace(string(out)))
	r.Set("python_records", n)
	if err != nil {
		if strings.Contains(string(out), "mismatches") {
			r.Violation("C15/python-reference-disagrees", "the Python re-derivation disagrees with recorded outputs: "+strings.TrimSpace(string(out)), map[string]any{"output": string(out)})
		} else {
			r.Inconclusive("python second opinion could not run: " + err.Error() + " " + string(out))
		}
	}
}
