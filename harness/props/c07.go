package props

import (
	"fmt"
	"math/rand/v2"
	"runtime"
	"sort"
	"sync"
	"sync/atomic"
	"time"

	"github.com/privacybydesign/gabi"
	"github.com/privacybydesign/gabi/big"
	"github.com/privacybydesign/gabi/gabikeys"
	"github.com/privacybydesign/gabi/rangeproof"
	"github.com/privacybydesign/gabi/revocation"
	"github.com/privacybydesign/gabi/verifhooks"

	"verifharness/mon"
	"verifharness/world"
)

func init() {
	Registry["C07"] = &Check{
		Level: "exploration",
		Rule: "histories = seeded sequences of <=12 operations from {prepare cache, revoke other + update witness, prove with/without non-revocation (with/without range part), build 2-proof list, issuance commitment} on 1..3 credentials, and concurrent histories (2..32 goroutines on one credential, yields injected in the cache hand-off); " +
			"every produced proof is verified and logged; offline checker over the log: (1) implied randomisers s-c*m (attributes, secret key, exponent e, revocation attribute) pairwise distinct except the shared secret-key randomiser inside one list, " +
			"(2) A', C_r, C_u, range commitments, U never repeat, (3) two-transcript extractor on v/v'/non-revocation/range responses for all proof pairs of one credential; non-trivial = history produced >=2 proofs; distinct by operation-sequence hash (sequential) / observed C_r consumption order signature (concurrent)",
		Run: runC07,
	}
}

// proofEvent is one logged proof with what the monitor needs to know about its origin.
type proofEvent struct {
	seq   int
	cred  int // credential id within the history (-1 for issuance)
	op    string
	d     *gabi.ProofD
	u     *gabi.ProofU
	c     *world.Cred
	uSecr *big.Int
	// sameBuilder: issued by the CredentialBuilder of the previous event (its commitment U is then the same by construction)
	sameBuilder bool
}

type c07log struct {
	mu     sync.Mutex
	events []*proofEvent
}

func (l *c07log) add(e *proofEvent) {
	l.mu.Lock()
	e.seq = len(l.events)
	l.events = append(l.events, e)
	l.mu.Unlock()
}

type seenVal struct {
	ev   *proofEvent
	what string
	c    *big.Int
}

// c07Check is the offline checker over a recorded history.
func c07Check(r *mon.Run, hist string, events []*proofEvent) {
	rands := map[string]seenVal{}
	elems := map[string]seenVal{}
	viol := func(sig, msg string, a, b *proofEvent) {
		rep := map[string]any{"history": hist, "first": dumpEvent(a), "second": dumpEvent(b)}
		r.Violation(sig, msg+" ["+hist+"]", rep)
	}
	noteRand := func(ev *proofEvent, what string, v, c *big.Int, shareable bool) {
		r.Eval("randomiser", "accept")
		k := v.String()
		if prev, ok := rands[k]; ok {
			if shareable && prev.what == what && prev.c.Cmp(c) == 0 && prev.ev != ev {
				return // documented sharing: secret-key randomiser across the members of one list
			}
			viol("C07/randomiser-reused/"+kindOf(prev.what)+"-"+kindOf(what),
				fmt.Sprintf("commitment randomiser used twice: %s of proof #%d (%s) and %s of proof #%d (%s)", prev.what, prev.ev.seq, prev.ev.op, what, ev.seq, ev.op), prev.ev, ev)
			return
		}
		rands[k] = seenVal{ev, what, c}
	}
	noteElem := func(ev *proofEvent, what string, v *big.Int) {
		r.Eval("commitment-element", "accept")
		k := v.String()
		if prev, ok := elems[k]; ok {
			viol("C07/commitment-repeated/"+kindOf(what), fmt.Sprintf("%s of proof #%d (%s) repeats %s of proof #%d (%s)", what, ev.seq, ev.op, prev.what, prev.ev.seq, prev.ev.op), prev.ev, ev)
			return
		}
		elems[k] = seenVal{ev, what, nil}
	}
	for _, ev := range events {
		switch {
		case ev.d != nil:
			d, c := ev.d, ev.c
			pk := c.Key.PK
			for _, i := range sortedKeys(d.AResponses) {
				rr := sub(d.AResponses[i], mul(d.C, c.NormLedger(i)))
				if rr.Sign() < 0 {
					viol("C07/negative-implied-randomiser", fmt.Sprintf("response %d of proof #%d is smaller than c*m", i, ev.seq), ev, ev)
					continue
				}
				what := "attribute-randomiser"
				if i == 0 {
					what = "secretkey-randomiser"
				} else if i == c.RevIdx {
					what = "revocation-randomiser"
				}
				noteRand(ev, what, rr, d.C, i == 0)
			}
			ePrime := sub(c.C.Signature.E, pow2(pk.Params.Le-1))
			noteRand(ev, "e-randomiser", sub(d.EResponse, mul(d.C, ePrime)), d.C, false)
			noteElem(ev, "A'", d.A)
			if nr := d.NonRevocationProof; nr != nil {
				noteElem(ev, "C_r", nr.Cr)
				noteElem(ev, "C_u", nr.Cu)
			}
			for _, idx := range sortedRangeKeys(d.RangeProofs) {
				for _, rp := range d.RangeProofs[idx] {
					for _, cs := range rp.Cs {
						noteElem(ev, "range-C", cs)
					}
				}
			}
		case ev.u != nil:
			noteRand(ev, "secretkey-randomiser", sub(ev.u.SResponse, mul(ev.u.C, ev.uSecr)), ev.u.C, true)
			if !ev.sameBuilder {
				noteElem(ev, "U", ev.u.U)
			}
		}
	}
	// two-transcript extractor on responses whose secret the harness does not know
	byCred := map[int][]*proofEvent{}
	for _, ev := range events {
		if ev.d != nil {
			byCred[ev.cred] = append(byCred[ev.cred], ev)
		}
	}
	extract := func(a, b *proofEvent, what string, s1, s2 *big.Int, bound uint) {
		if s1 == nil || s2 == nil {
			return
		}
		dc := sub(a.d.C, b.d.C)
		if dc.Sign() == 0 {
			return
		}
		r.Eval("extractor", "accept")
		ds := sub(s1, s2)
		q, m := new(big.Int).QuoRem(ds, dc, new(big.Int))
		if m.Sign() == 0 && uint(q.BitLen()) <= bound {
			viol("C07/extractor-succeeds/"+kindOf(what), fmt.Sprintf("two-transcript extractor recovers the secret behind %s from proofs #%d and #%d (same randomiser used twice)", what, a.seq, b.seq), a, b)
		}
	}
	for _, evs := range byCred {
		for i := 0; i < len(evs); i++ {
			for j := i + 1; j < len(evs); j++ {
				a, b := evs[i], evs[j]
				pk := a.c.Key.PK
				extract(a, b, "v_response", a.d.VResponse, b.d.VResponse, pk.Params.Lv+pk.Params.LRA+pk.Params.Le+8)
				if a.d.NonRevocationProof != nil && b.d.NonRevocationProof != nil {
					for _, name := range []string{"beta", "delta", "epsilon", "zeta"} {
						extract(a, b, "nonrev-"+name, a.d.NonRevocationProof.Responses[name], b.d.NonRevocationProof.Responses[name], pk.Params.Ln+300)
					}
				}
				for idx, la := range a.d.RangeProofs {
					lb := b.d.RangeProofs[idx]
					for k := 0; k < len(la) && k < len(lb); k++ {
						extract(a, b, "range-v5", la[k].V5Response, lb[k].V5Response, pk.Params.Lm+140)
						for t := 0; t < len(la[k].VResponses) && t < len(lb[k].VResponses); t++ {
							extract(a, b, "range-v", la[k].VResponses[t], lb[k].VResponses[t], pk.Params.Lm+2)
							extract(a, b, "range-d", la[k].DResponses[t], lb[k].DResponses[t], 130)
						}
					}
				}
			}
		}
	}
}

func kindOf(s string) string {
	for i, c := range s {
		if c == ' ' {
			return s[:i]
		}
	}
	return s
}

func sortedRangeKeys(m map[int][]*rangeproof.Proof) []int {
	ks := make([]int, 0, len(m))
	for k := range m {
		ks = append(ks, k)
	}
	sort.Ints(ks)
	return ks
}

func dumpEvent(e *proofEvent) map[string]any {
	out := map[string]any{"seq": e.seq, "op": e.op, "cred": e.cred}
	if e.d != nil {
		out["proof"] = dumpD(e.d)
		out["ledger"] = dumpInts(e.c.Ledger)
	}
	if e.u != nil {
		out["proof"] = dumpU(e.u)
	}
	return out
}

func runC07(r *mon.Run) {
	keys := []string{"toy256a", "toy512a"}
	if r.Thorough() {
		keys = []string{"toy256a", "toy512a", "toy384a", "toy512z", "fix1024a"}
	}
	nSeq := r.Pick(1500, 20000)
	rng := r.Rand("hist")
	seeds := make([]uint64, nSeq)
	for i := range seeds {
		seeds[i] = rng.Uint64()
	}
	mon.Parallel(nSeq, runtime.NumCPU(), func(i int) {
		jr := rand.New(rand.NewPCG(seeds[i], 7))
		c07Sequential(r, world.Fixture(keys[i%len(keys)]), jr, i)
	})
	// concurrent histories
	nConc := r.Pick(120, 1500)
	gor := []int{2, 3, 4, 8, 16, 32}
	for i := 0; i < nConc; i++ {
		jr := rand.New(rand.NewPCG(rng.Uint64(), 77))
		c07Concurrent(r, world.Fixture(keys[i%len(keys)]), jr, gor[i%len(gor)], i)
	}
	verifhooks.SetVerifPoint(nil)
	c07GeneratorStress(r)
	c07FaultedSource(r)
	r.FloorFam("randomiser", 2000)
	r.FloorFam("generator-draw", 100000)
	r.FloorFam("commitment-element", 1000)
	r.FloorFam("extractor", 500)
	r.FloorFam("faulted-source", 40)
	r.Floor("proofs from a prepared (cached) commitment", 20, func() int64 { return r.Get("proofs_from_cache") })
	r.Floor("concurrent histories", 10, func() int64 { return r.Get("concurrent_histories") })
}

type c07cred struct {
	c   *world.Cred
	rev *world.Rev
}

func c07MkCred(jr *rand.Rand, k *world.Key, secret *big.Int) *c07cred {
	rev, err := world.NewRev(k)
	if err != nil {
		panic(err)
	}
	ms := []*big.Int{secret, bi(int64(1000 + jr.IntN(1000))), bi(int64(30 + jr.IntN(60))), randBig(jr, 200)}
	c, err := k.SignCredRev(ms, rev)
	if err != nil {
		panic(err)
	}
	return &c07cred{c: c, rev: rev}
}

func c07Sequential(r *mon.Run, k *world.Key, jr *rand.Rand, idx int) {
	secret := randBig(jr, 250)
	nc := 1 + jr.IntN(3)
	creds := make([]*c07cred, nc)
	for i := range creds {
		creds[i] = c07MkCred(jr, k, secret)
	}
	log := &c07log{}
	nOps := 4 + jr.IntN(9)
	hist := fmt.Sprintf("seq key=%s creds=%d:", k.Name, nc)
	prepared := make([]bool, nc)
	for o := 0; o < nOps; o++ {
		ci := jr.IntN(nc)
		cc := creds[ci]
		ctx, nonce := freshNonces(jr)
		switch op := jr.IntN(9); op {
		case 8: // issuance retried: the same CredentialBuilder answers two issuer nonces (CommitToSecretAndProve twice)
			hist += " iss-retry"
			b, err := gabi.NewCredentialBuilder(k.PK, ctx, secret, randBig(jr, 80), nil, nil)
			if err != nil {
				continue
			}
			for t := 0; t < 2+jr.IntN(2); t++ {
				_, n1 := freshNonces(jr)
				var msg *gabi.IssueCommitmentMessage
				var merr error
				if t%2 == 0 {
					msg, merr = b.CommitToSecretAndProve(n1)
				} else {
					var l gabi.ProofList
					if l, merr = (gabi.ProofBuilderList{b}).BuildProofList(ctx, n1, false); merr == nil {
						msg = b.CreateIssueCommitmentMessage(l)
					}
				}
				if merr != nil || msg == nil || len(msg.Proofs) == 0 {
					r.Eval("op-error", "error")
					continue
				}
				pu, isU := msg.Proofs[0].(*gabi.ProofU)
				if !isU {
					continue
				}
				ok := false
				mon.Try(func() { ok = pu.Verify(k.PK, ctx, n1) })
				r.Eval("verify", outcome(ok, nil))
				// U is fixed per builder by construction; what must be fresh for every proof is the secret-key randomiser
				log.add(&proofEvent{cred: -1, op: fmt.Sprintf("issuance-retry-%d", t), u: pu, uSecr: secret, sameBuilder: t > 0})
			}
		case 7: // two builders outstanding at the same time (the first is only used after the second was created)
			hist += fmt.Sprintf(" two%d", ci)
			b1, e1 := cc.c.C.CreateDisclosureProofBuilder([]int{1}, nil, true)
			b2, e2 := cc.c.C.CreateDisclosureProofBuilder([]int{2}, nil, true)
			if e1 != nil || e2 != nil {
				r.Eval("op-error", "error")
				continue
			}
			prepared[ci] = false
			ctx2, nonce2 := freshNonces(jr)
			l2, err2 := gabi.ProofBuilderList{b2}.BuildProofList(ctx2, nonce2, false)
			l1, err1 := gabi.ProofBuilderList{b1}.BuildProofList(ctx, nonce, false)
			if err1 != nil || err2 != nil {
				r.Eval("op-error", "error")
				continue
			}
			c07Record(r, log, ci, "outstanding-1", l1[0].(*gabi.ProofD), cc.c, k.PK, ctx, nonce)
			c07Record(r, log, ci, "outstanding-2", l2[0].(*gabi.ProofD), cc.c, k.PK, ctx2, nonce2)
		case 0: // prepare cache
			hist += fmt.Sprintf(" prep%d", ci)
			if err := cc.c.C.NonrevPrepareCache(); err != nil {
				r.Eval("op-error", "error")
			} else {
				prepared[ci] = true
			}
		case 1: // revoke somebody else, update witness
			hist += fmt.Sprintf(" upd%d", ci)
			old := cc.rev.Cur()
			if _, _, err := cc.rev.RevokeRandom(); err != nil {
				panic(err)
			}
			if err := cc.c.C.NonRevocationWitness.Update(k.PK, cc.rev.Update(old+1, cc.rev.Cur())); err != nil {
				r.Eval("op-error", "error")
			}
		case 2, 3: // prove with non-revocation
			hist += fmt.Sprintf(" nr%d", ci)
			var stm map[int][]*rangeproof.Statement
			if op == 3 {
				st, _ := rangeproof.NewStatement(rangeproof.GreaterOrEqual, bi(18))
				stm = map[int][]*rangeproof.Statement{2: {st}}
			}
			d, err := cc.c.C.CreateDisclosureProof([]int{1}, stm, true, ctx, nonce)
			if err != nil {
				r.Eval("op-error", "error")
				continue
			}
			if prepared[ci] {
				r.Add("proofs_from_cache", 1)
				prepared[ci] = false
			}
			c07Record(r, log, ci, "prove-nonrev", d, cc.c, k.PK, ctx, nonce)
		case 4: // prove without non-revocation
			hist += fmt.Sprintf(" pl%d", ci)
			d, err := cc.c.C.CreateDisclosureProof([]int{2}, nil, false, ctx, nonce)
			if err != nil {
				r.Eval("op-error", "error")
				continue
			}
			c07Record(r, log, ci, "prove-plain", d, cc.c, k.PK, ctx, nonce)
		case 5: // list of two disclosure proofs (shared secret-key randomiser)
			cj := jr.IntN(nc)
			hist += fmt.Sprintf(" list%d+%d", ci, cj)
			b1, e1 := cc.c.C.CreateDisclosureProofBuilder([]int{1}, nil, jr.IntN(2) == 0)
			b2, e2 := creds[cj].c.C.CreateDisclosureProofBuilder([]int{1, 2}, nil, false)
			if e1 != nil || e2 != nil {
				r.Eval("op-error", "error")
				continue
			}
			list, err := gabi.ProofBuilderList{b1, b2}.BuildProofList(ctx, nonce, false)
			if err != nil {
				r.Eval("op-error", "error")
				continue
			}
			ok, _, _ := verifyList(cloneList(list), []*gabikeys.PublicKey{k.PK, k.PK}, ctx, nonce, false, nil)
			r.Eval("verify", outcome(ok, nil))
			log.add(&proofEvent{cred: ci, op: "list[0]", d: list[0].(*gabi.ProofD), c: cc.c})
			log.add(&proofEvent{cred: cj, op: "list[1]", d: list[1].(*gabi.ProofD), c: creds[cj].c})
		case 6: // issuance commitment with a fresh builder, linked to a disclosure
			hist += fmt.Sprintf(" iss+%d", ci)
			b, err := gabi.NewCredentialBuilder(k.PK, ctx, secret, randBig(jr, 80), nil, nil)
			if err != nil {
				continue
			}
			bd, err := cc.c.C.CreateDisclosureProofBuilder([]int{1}, nil, false)
			if err != nil {
				continue
			}
			list, err := gabi.ProofBuilderList{b, bd}.BuildProofList(ctx, nonce, false)
			if err != nil {
				continue
			}
			ok, _, _ := verifyList(cloneList(list), []*gabikeys.PublicKey{k.PK, k.PK}, ctx, nonce, false, nil)
			r.Eval("verify", outcome(ok, nil))
			log.add(&proofEvent{cred: -1, op: "issuance", u: list[0].(*gabi.ProofU), uSecr: secret})
			log.add(&proofEvent{cred: ci, op: "list-with-issuance", d: list[1].(*gabi.ProofD), c: cc.c})
		}
	}
	if len(log.events) >= 2 {
		r.Distinct(hist)
		c07Check(r, hist, log.events)
		if idx%97 == 0 {
			r.Sample(map[string]any{"history": hist, "proofs": len(log.events)})
		}
	}
}

func c07Record(r *mon.Run, log *c07log, ci int, op string, d *gabi.ProofD, c *world.Cred, pk *gabikeys.PublicKey, ctx, nonce *big.Int) {
	ok, pv, _ := verifyD(pk, cloneD(d), ctx, nonce, false)
	r.Eval("verify", outcome(ok, pv))
	log.add(&proofEvent{cred: ci, op: op, d: d, c: c})
}

// c07Concurrent: goroutines share one credential; preparers and provers race on the cache hand-off.
func c07Concurrent(r *mon.Run, k *world.Key, jr *rand.Rand, g int, idx int) {
	cc := c07MkCred(jr, k, randBig(jr, 250))
	if err := cc.c.C.NonrevPrepareCache(); err != nil { // create the cache before sharing (first-time creation is C20's matter)
		return
	}
	var yields atomic.Int64
	verifhooks.SetVerifPoint(func(name string) {
		switch name {
		case "nonrev.consume.afterReceive", "nonrev.prepare.beforePutBack":
			n := yields.Add(1)
			if n%3 == 0 {
				time.Sleep(time.Duration(n%5) * 100 * time.Microsecond)
			} else {
				runtime.Gosched()
			}
		}
	})
	log := &c07log{}
	var wg sync.WaitGroup
	per := 3
	seeds := make([]uint64, g)
	for i := range seeds {
		seeds[i] = jr.Uint64()
	}
	for w := 0; w < g; w++ {
		wg.Add(1)
		go func(w int) {
			defer wg.Done()
			lr := rand.New(rand.NewPCG(seeds[w], 9))
			for it := 0; it < per; it++ {
				if lr.IntN(3) == 0 {
					_ = cc.c.C.NonrevPrepareCache()
					continue
				}
				ctx, nonce := freshNonces(lr)
				d, err := cc.c.C.CreateDisclosureProof([]int{1}, nil, true, ctx, nonce)
				if err != nil {
					r.Eval("op-error", "error")
					continue
				}
				c07Record(r, log, 0, fmt.Sprintf("g%d-prove-nonrev", w), d, cc.c, k.PK, ctx, nonce)
			}
		}(w)
	}
	wg.Wait()
	verifhooks.SetVerifPoint(nil)
	r.Add("concurrent_histories", 1)
	r.Add("injected_yields", yields.Load())
	hist := fmt.Sprintf("conc key=%s goroutines=%d proofs=%d", k.Name, g, len(log.events))
	if len(log.events) >= 2 {
		// interleaving signature: order in which goroutines' proofs were logged
		sig := ""
		for _, e := range log.events {
			sig += e.op[:3]
		}
		r.Distinct("conc", g, sig)
		c07Check(r, hist, log.events)
	}
	if idx%40 == 0 {
		r.Sample(map[string]any{"history": hist})
	}
}

// c07GeneratorStress: the process-wide fast generator supplies the non-revocation randomisers (alpha randomiser, r2, r3, ...).
// Many goroutines draw from it in a tight loop through the public API; any value handed out twice is a reused randomiser.
func c07GeneratorStress(r *mon.Run) {
	rounds := r.Pick(6, 60)
	for round := 0; round < rounds; round++ {
		g := []int{2, 4, 16, 32, 64}[round%5]
		per := 40000 / g
		out := make([][]string, g)
		var wg sync.WaitGroup
		start := make(chan struct{})
		for w := 0; w < g; w++ {
			wg.Add(1)
			go func(w int) {
				defer wg.Done()
				<-start
				vals := make([]string, 0, per)
				for i := 0; i < per; i++ {
					var v *big.Int
					if i%2 == 0 {
						v = revocation.NewProofRandomizer()
					} else {
						v = verifhooks.FastRandomBigInt(pow2(256))
					}
					vals = append(vals, string(v.Bytes()))
				}
				out[w] = vals
			}(w)
		}
		close(start)
		wg.Wait()
		seen := make(map[string]int, g*per)
		dups := 0
		for w, vals := range out {
			for _, v := range vals {
				r.Eval("generator-draw", "accept")
				if prev, ok := seen[v]; ok && len(v) > 16 {
					dups++
					if dups == 1 {
						r.Violation("C07/generator-output-repeated", fmt.Sprintf("the process-wide generator handed the same value to goroutines %d and %d (round %d, %d goroutines): two proofs would share a commitment randomiser", prev, w, round, g),
							map[string]any{"round": round, "goroutines": g, "value_hex": fmt.Sprintf("%x", v)})
					}
				}
				seen[v] = w
			}
		}
		r.Distinct("generator-stress", round, g)
	}
}

// c07FaultedSource: proofs made while one read of the system random source fails. The library may refuse to make the proof; a
// proof it does hand out goes into the history like any other, and the history (two proofs per fault position plus two
// undisturbed ones) is judged by the same offline checker: a failed draw must not become a fixed randomiser.
func c07FaultedSource(r *mon.Run) {
	jr := r.Rand("faulted-source")
	for _, kn := range []string{"toy512a", "toy256a"} {
		k := world.Fixture(kn)
		secret := randBig(jr, 200)
		cc := c07MkCred(jr, k, secret)
		for vi, nonrev := range []bool{false, true, false} {
			log := &c07log{}
			ctx := bi(1)
			withRange := vi == 2
			mk := func(op string, n int64) (d *gabi.ProofD, err error, pv any) {
				pv, _ = mon.Try(func() {
					if withRange {
						st, _ := rangeproof.NewStatement(rangeproof.GreaterOrEqual, bi(18))
						d, err = cc.c.C.CreateDisclosureProof([]int{1}, map[int][]*rangeproof.Statement{2: {st}}, false, ctx, bi(n))
						return
					}
					d, err = cc.c.C.CreateDisclosureProof([]int{2}, nil, nonrev, ctx, bi(n))
				})
				return
			}
			for i := int64(0); i < 2; i++ {
				if d, err, pv := mk("undisturbed", 900+i); pv == nil && err == nil {
					c07Record(r, log, 0, "proof", d, cc.c, k.PK, ctx, bi(900+i))
				}
			}
			for rep := int64(0); rep < 2; rep++ {
				reads := r.Pick(16, 40)
				if withRange {
					reads = r.Pick(30, 60)
				}
				failedDraws(reads, func(desc string, hit func() bool) {
					n := 1000 + rep
					d, err, pv := mk(desc, n)
					if !hit() {
						return
					}
					r.Distinct("faulted-source", kn, nonrev, withRange, desc, rep)
					switch {
					case pv != nil:
						r.Eval("faulted-source", "panic")
					case err != nil || d == nil:
						r.Eval("faulted-source", "error")
					default:
						r.Eval("faulted-source", "accept")
						r.Add("proofs_made_during_a_failed_draw", 1)
						c07Record(r, log, 0, "proof under "+desc, d, cc.c, k.PK, ctx, bi(n))
					}
				})
			}
			c07Check(r, fmt.Sprintf("faulted-source %s nonrev=%v range=%v", kn, nonrev, withRange), log.events)
		}
	}
}
