package props

import (
	"fmt"
	"math/rand/v2"
	"runtime"
	"sync"

	"github.com/privacybydesign/gabi"
	"github.com/privacybydesign/gabi/big"
	"github.com/privacybydesign/gabi/gabikeys"
	"github.com/privacybydesign/gabi/rangeproof"

	"verifharness/mon"
	"verifharness/world"
)

func init() {
	Registry["C13"] = &Check{
		Level: "exploration",
		Rule: "cases = true statements sign*(factor*m - bound) = diff >= 0 on a hidden attribute m < 2^Lm: diff densely 0..300, the points 2^k, 2^k+-1 (k<=255), forms 4^a(8b+7), multiples of 4 and random values up to 2^256-1, both signs, factors 1..8 with the four-square splitter; " +
			"factor 1 with the three-square table (limit 4096): EVERY table entry 0..4095 with both signs; compositions of 1..4 statements per attribute on 1..3 attributes with mixed splitters; toy and fixture keys; " +
			"non-trivial = statement is true and inside the documented limits; distinct by (key, splitter, sign, factor, diff | composition) hash; oracle: the library creates the proof without error, the proof verifies (after a JSON round trip whenever the descriptor is serialisable), " +
			"Proves(requested statement) is true and ProvenStatement returns exactly the requested sign/factor/bound",
		Run: runC13,
	}
}

type c13case struct {
	sign  int
	f     uint
	diff  *big.Int
	three bool
	// tbl: the squares table to use for a three-squares case (nil: the common 4096-entry table)
	tbl *rangeproof.SquaresTable
	// mBits: exact bit length of the attribute (0: 200..252 random bits)
	mBits int
	// idx: position of the hidden attribute in the credential (0: position 2); positions above 2 use the 12-base key
	idx int
}

// c13Extreme: true statements proved while single reads of crypto/rand.Reader return all ones / all zeros.
func c13Extreme(r *mon.Run, table *rangeproof.SquaresTable) {
	key := world.Fixture("toy512a")
	m := bi(1).Lsh(bi(1), 200)
	cred, err := key.SignCred([]*big.Int{bi(987654321), bi(77), m})
	if err != nil {
		panic(err)
	}
	for _, three := range []bool{false, true} {
		extremeDraws(r.Pick(10, 20), func(desc string, hit func() bool) {
			st := &rangeproof.Statement{Sign: 1, Factor: 1, Bound: sub(m, bi(1000))}
			if three {
				st = &rangeproof.Statement{Sign: -1, Factor: 1, Bound: add(m, bi(3)), Splitter: table}
			}
			ctx, nonce := bi(1), bi(424242)
			var d *gabi.ProofD
			var perr error
			pv, stack := mon.Try(func() {
				d, perr = cred.C.CreateDisclosureProof([]int{1}, map[int][]*rangeproof.Statement{2: {st}}, false, ctx, nonce)
			})
			if !hit() {
				return
			}
			ds := fmt.Sprintf("three-squares=%v %s", three, desc)
			r.Distinct("extreme-randomness", ds)
			if pv != nil {
				r.Eval("extreme-randomness", "panic")
				r.Violation("C13/true-statement-not-provable/extreme-randomness", fmt.Sprintf("proving panics under an extreme random draw: %v at %s (%s)", pv, mon.PanicSite(stack), ds), map[string]any{"case": ds})
				return
			}
			ok := false
			if perr == nil && d != nil {
				ok, _, _ = verifyD(key.PK, cloneD(d), ctx, nonce, false)
				if ok {
					rp := d.RangeProofs[2]
					ok = len(rp) == 1 && rp[0].ProvesStatement(st.Sign, st.Factor, st.Bound)
				}
			}
			r.Eval("extreme-randomness", outcome(ok, nil))
			if !ok {
				r.Violation("C13/true-statement-not-provable/extreme-randomness", fmt.Sprintf("a true statement cannot be proved (or the proof does not verify / does not prove it) under an extreme random draw (err=%v) (%s)", perr, ds), map[string]any{"case": ds})
			}
		})
	}
	r.FloorFam("extreme-randomness", 10)
}

func runC13(r *mon.Run) {
	keys := []string{"toy256a"}
	if r.Thorough() {
		keys = []string{"toy256a", "toy512a", "toy512z", "fix1024a", "fix2048a"}
	}
	table := rangeproof.GenerateSquaresTable(4096)
	c13Extreme(r, table)
	rng := r.Rand("cases")
	var cases []c13case
	// dense window
	for d := int64(0); d <= 300; d++ {
		for _, s := range []int{1, -1} {
			f := uint(1 + (d+int64(s)+1)%8)
			cases = append(cases, c13case{s, f, bi(d), false, nil, 0, 0})
			if d <= 40 {
				for ff := uint(1); ff <= 8; ff++ {
					if ff != f {
						cases = append(cases, c13case{s, ff, bi(d), false, nil, 0, 0})
					}
				}
			}
		}
	}
	// structured points
	step := 1
	if !r.Thorough() {
		step = 5
	}
	for k := uint(2); k <= 255; k += uint(step) {
		for _, dlt := range []int64{-1, 0, 1} {
			v := add(pow2(k), bi(dlt))
			cases = append(cases, c13case{1 - 2*int(k%2), uint(1 + k%8), v, false, nil, 0, 0})
		}
	}
	cases = append(cases, c13case{1, 1, sub(pow2(256), bigOne), false, nil, 0, 0}, c13case{-1, 8, sub(pow2(256), bigOne), false, nil, 0, 0}, c13case{1, 3, sub(pow2(256), bi(8)), false, nil, 0, 0})
	for a := uint(0); a <= 20; a += 2 {
		for b := int64(0); b < 6; b++ {
			v := mul(pow2(2*a), bi(8*b+7)) // numbers that are NOT sums of three squares
			cases = append(cases, c13case{1, 1, v, false, nil, 0, 0}, c13case{-1, 2, v, false, nil, 0, 0})
		}
	}
	for i := 0; i < r.Pick(150, 9000); i++ {
		bits := 1 + rng.IntN(256)
		v := randBig(rng, bits)
		if rng.IntN(3) == 0 {
			v.Lsh(v, 2).Rsh(v, 2).Lsh(v, 2) // multiple of 4
			if v.BitLen() > 256 {
				v.Rsh(v, 2)
			}
		}
		cases = append(cases, c13case{1 - 2*rng.IntN(2), uint(1 + rng.IntN(8)), v, false, nil, 0, 0})
	}
	// three squares: every table entry, both signs
	for d := int64(0); d <= 4096; d++ {
		if !r.Thorough() && d > 64 && d < 4000 && d%3 != 0 {
			continue
		}
		cases = append(cases, c13case{1, 1, bi(d), true, nil, 0, 0}, c13case{-1, 1, bi(d), true, nil, 0, 0})
	}
	// attributes of full size (the rescaled bound then has up to 3 bits more than the attribute)
	for _, mb := range []int{253, 254, 255, 256} {
		for _, sg := range []int{1, -1} {
			for _, dv := range []int64{0, 7, 1000} {
				for _, f := range []uint{1, 2, 3, 8} {
					cases = append(cases, c13case{sign: sg, f: f, diff: bi(dv), mBits: mb})
				}
				cases = append(cases, c13case{sign: sg, f: 1, diff: bi(dv), three: true, mBits: mb})
			}
		}
	}
	// the hidden attribute at every position the largest fixture key offers (positions 3..11)
	for posn := 3; posn <= 11; posn++ {
		for _, sg := range []int{1, -1} {
			cases = append(cases, c13case{sign: sg, f: 1, diff: bi(int64(posn)), idx: posn}, c13case{sign: sg, f: 3, diff: bi(0), idx: posn}, c13case{sign: sg, f: 1, diff: bi(21), three: true, idx: posn})
		}
	}
	// tables of other sizes (the number of bits reserved for the roots is derived from the table size): every entry
	limits := []int64{1, 2, 3, 4, 5, 15, 16, 17, 20, 63, 64, 65, 100, 255, 256, 300}
	if r.Thorough() {
		limits = append(limits, 1000, 1023, 1024, 1025, 2500, 16383, 16384, 20000)
	}
	for _, lim := range limits {
		tb := rangeproof.GenerateSquaresTable(lim)
		step := int64(1)
		if lim > 3000 {
			step = 37
		}
		for d := int64(0); d <= lim; d += step {
			cases = append(cases, c13case{1 - 2*int(d%2), 1, bi(d), true, tb, 0, 0})
		}
		cases = append(cases, c13case{1, 1, bi(lim), true, tb, 0, 0}, c13case{-1, 1, bi(lim), true, tb, 0, 0})
	}
	r.Set("three_square_table_sizes", len(limits)+1)
	r.Set("three_square_entries_exhaustive", r.Thorough())
	seeds := make([]uint64, len(cases))
	for i := range seeds {
		seeds[i] = rng.Uint64()
	}
	mon.Parallel(len(cases), runtime.NumCPU(), func(i int) {
		c := cases[i]
		jr := rand.New(rand.NewPCG(seeds[i], 13))
		key := world.Fixture(keys[i%len(keys)])
		if key.Name[:3] == "fix" && i%9 != 0 {
			key = world.Fixture(keys[0])
		}
		c13Single(r, key, jr, c, table, i)
	})
	// compositions
	ncomp := r.Pick(120, 6000)
	cseeds := make([]uint64, ncomp)
	for i := range cseeds {
		cseeds[i] = rng.Uint64()
	}
	mon.Parallel(ncomp, runtime.NumCPU(), func(i int) {
		jr := rand.New(rand.NewPCG(cseeds[i], 130))
		key := world.Fixture(keys[i%len(keys)])
		if key.Name[:3] == "fix" && i%9 != 0 {
			key = world.Fixture(keys[0])
		}
		c13Composite(r, key, jr, table, i)
	})
	r.FloorAccept("four-squares", 500)
	r.FloorAccept("three-squares", 500)
	r.FloorAccept("composite", 50)
	r.FloorFam("constructor", 100)
}

// mkStatement derives (m, statement) with sign*(f*m - bound) = diff.
func mkStatement(jr *rand.Rand, c c13case, table *rangeproof.SquaresTable) (*big.Int, *rangeproof.Statement) {
	m := randBig(jr, 200+jr.IntN(53))
	if jr.IntN(6) == 0 {
		m = bi(int64(jr.IntN(1000)))
	}
	if c.mBits > 0 {
		m = randBig(jr, c.mBits)
		m.SetBit(m, c.mBits-1, 1)
	}
	fm := mul(bi(int64(c.f)), m)
	var bound *big.Int
	if c.sign == 1 {
		bound = sub(fm, c.diff) // f*m - bound = diff
	} else {
		bound = add(fm, c.diff) // bound - f*m = diff
	}
	st := &rangeproof.Statement{Sign: c.sign, Factor: c.f, Bound: bound}
	if c.f == 1 && jr.IntN(2) == 0 {
		// through the constructor, from a scratch variable that the caller goes on using (a loop walking a window of
		// bounds): the statement must keep the value it was requested with
		typ := rangeproof.GreaterOrEqual
		if c.sign != 1 {
			typ = rangeproof.LesserOrEqual
		}
		scratch := cp(bound)
		if ns, err := rangeproof.NewStatement(typ, scratch); err == nil && ns != nil {
			scratch.Add(scratch, bi(int64(1+jr.IntN(1000)))).Lsh(scratch, uint(jr.IntN(3)))
			st = ns
			stmtIntended.Store(st, cp(bound))
		}
	}
	if c.three {
		st.Splitter = table
		if c.tbl != nil {
			st.Splitter = c.tbl
		}
	}
	return m, st
}

// stmtIntended remembers, for statements made through NewStatement, the bound they were requested with.
var stmtIntended sync.Map

func c13Judge(r *mon.Run, family, desc string, key *world.Key, cred *world.Cred, stm map[int][]*rangeproof.Statement, sample bool) {
	pk := key.PK
	r.Distinct(key.Name, family, desc)
	fail := func(sig, msg string, extra map[string]any) {
		m := map[string]any{"family": family, "case": desc, "key": key.Name, "cred": dumpCred(cred), "statements": dumpStatements(stm)}
		for k, v := range extra {
			m[k] = v
		}
		r.Violation(sig, msg+" ("+family+": "+desc+")", m)
	}
	for _, l := range stm {
		for _, st := range l {
			if want, ok := stmtIntended.LoadAndDelete(st); ok {
				r.Eval("constructor", "accept")
				if st.Bound.Cmp(want.(*big.Int)) != 0 {
					fail("C13/statement-follows-callers-variable", fmt.Sprintf("a statement made by NewStatement changed from bound %s to %s when the caller re-used its own variable", shortInt(want.(*big.Int)), shortInt(st.Bound)), nil)
					st.Bound = cp(want.(*big.Int))
				}
			}
		}
	}
	ctx, nonce := bi(987654321), bi(1234567)
	// requested statements are copied: the library must not be affected by (or affect) the caller's values
	req := map[int][]*rangeproof.Statement{}
	for i, l := range stm {
		for _, s := range l {
			req[i] = append(req[i], &rangeproof.Statement{Sign: s.Sign, Factor: s.Factor, Bound: cp(s.Bound), Splitter: s.Splitter})
		}
	}
	var d *gabi.ProofD
	var err error
	pv, stack := mon.Try(func() { d, err = cred.C.CreateDisclosureProof([]int{1}, stm, false, ctx, nonce) })
	if pv != nil {
		r.Eval(family, "panic")
		fail("C13/proving-panics", fmt.Sprintf("CreateDisclosureProof panicked: %v at %s", pv, mon.PanicSite(stack)), nil)
		return
	}
	if err != nil {
		r.Eval(family, "error")
		sig := "C13/true-statement-not-provable"
		if family == "three-squares" {
			sig += "/three-squares"
		}
		fail(sig, "the library refuses to prove a true statement inside the documented limits: "+err.Error(), nil)
		return
	}
	serialisable := true
	for _, l := range req {
		for _, s := range l {
			k := s.Bound
			if s.Splitter != nil {
				k = sub(mul(k, bi(4)), bi(2))
			}
			if k.Sign() < 0 {
				serialisable = false // the integer encoding refuses negative numbers (documented in C18)
			}
		}
	}
	var recv gabi.ProofList
	if serialisable {
		recv, err = jsonRoundTripList(gabi.ProofList{d})
		if err != nil {
			fail("C13/proof-not-serialisable", "proof with non-negative descriptor does not survive JSON: "+err.Error(), map[string]any{"proof": dumpD(d)})
			return
		}
	} else {
		recv = gabi.ProofList{cloneD(d)}
	}
	ok, pvv, _ := verifyList(recv, []*gabikeys.PublicKey{pk}, ctx, nonce, false, nil)
	r.Eval(family, outcome(ok, pvv))
	if !ok {
		fail("C13/proof-of-true-statement-rejected", "the proof of a true statement does not verify", map[string]any{"proof": dumpD(d)})
		return
	}
	got := recv[0].(*gabi.ProofD)
	for i, l := range req {
		if len(got.RangeProofs[i]) != len(l) {
			fail("C13/statement-count-differs", fmt.Sprintf("attribute %d: %d range proofs for %d statements", i, len(got.RangeProofs[i]), len(l)), map[string]any{"proof": dumpD(d)})
			return
		}
		for k, s := range l {
			rp := got.RangeProofs[i][k]
			if !rp.Proves(s) {
				fail("C13/proof-does-not-prove-requested-statement", fmt.Sprintf("Proves(requested statement %d of attribute %d) is false", k, i), map[string]any{"proof": dumpD(d)})
			}
			typ, factor, bound := rp.ProvenStatement()
			sign := 1
			if typ == rangeproof.LesserOrEqual {
				sign = -1
			}
			if sign != s.Sign || factor != s.Factor || bound.Cmp(s.Bound) != 0 {
				fail("C13/proven-statement-differs-from-requested", fmt.Sprintf("ProvenStatement = (%d,%d,%s), requested (%d,%d,%s)", sign, factor, dumpInt(bound), s.Sign, s.Factor, dumpInt(s.Bound)), map[string]any{"proof": dumpD(d)})
			}
		}
	}
	for i, l := range stm {
		for k, s := range l {
			if s.Bound.Cmp(req[i][k].Bound) != 0 {
				fail("C13/caller-statement-modified", "the library changed the caller's bound", nil)
			}
		}
	}
	if sample {
		r.Sample(map[string]any{"family": family, "case": desc, "key": key.Name})
	}
}

func dumpStatements(stm map[int][]*rangeproof.Statement) map[string]any {
	out := map[string]any{}
	for i, l := range stm {
		var arr []any
		for _, s := range l {
			arr = append(arr, map[string]any{"sign": s.Sign, "factor": s.Factor, "bound": dumpInt(s.Bound), "three_squares": s.Splitter != nil})
		}
		out[fmt.Sprint(i)] = arr
	}
	return out
}

func c13Single(r *mon.Run, key *world.Key, jr *rand.Rand, c c13case, table *rangeproof.SquaresTable, idx int) {
	m, st := mkStatement(jr, c, table)
	pos := 2
	attrs := []*big.Int{randBig(jr, 250), bi(77), m}
	if c.idx > 2 {
		key = world.Fixture("fix1024a")
		pos = c.idx
		attrs = []*big.Int{randBig(jr, 250)}
		for i := 1; i < pos; i++ {
			attrs = append(attrs, bi(int64(70+i)))
		}
		attrs = append(attrs, m)
	}
	cred, err := key.SignCred(attrs)
	if err != nil {
		panic(err)
	}
	family := "four-squares"
	if c.three {
		family = "three-squares"
	}
	desc := fmt.Sprintf("sign=%d factor=%d diff=%s (bits %d) m_bits=%d", c.sign, c.f, shortInt(c.diff), c.diff.BitLen(), m.BitLen())
	if pos != 2 {
		desc += fmt.Sprintf(" attribute position %d", pos)
	}
	c13Judge(r, family, desc, key, cred, map[int][]*rangeproof.Statement{pos: {st}}, idx%2500 == 0)
}

func shortInt(x *big.Int) string {
	s := x.String()
	if len(s) > 24 {
		return s[:10] + ".." + s[len(s)-6:]
	}
	return s
}

func c13Composite(r *mon.Run, key *world.Key, jr *rand.Rand, table *rangeproof.SquaresTable, idx int) {
	nAttr := 1 + jr.IntN(3)
	ms := []*big.Int{randBig(jr, 250), bi(77)}
	stm := map[int][]*rangeproof.Statement{}
	desc := ""
	for a := 0; a < nAttr; a++ {
		m := randBig(jr, 60+jr.IntN(190))
		ms = append(ms, m)
		ns := 1 + jr.IntN(4)
		for k := 0; k < ns; k++ {
			c := c13case{sign: 1 - 2*jr.IntN(2), f: uint(1 + jr.IntN(8)), diff: randBig(jr, 1+jr.IntN(200))}
			if jr.IntN(3) == 0 {
				c.three, c.f, c.diff = true, 1, bi(int64(jr.IntN(4096)))
			}
			if jr.IntN(5) == 0 {
				c.diff = bi(0)
			}
			fm := mul(bi(int64(c.f)), m)
			bound := sub(fm, c.diff)
			if c.sign == -1 {
				bound = add(fm, c.diff)
			}
			st := &rangeproof.Statement{Sign: c.sign, Factor: c.f, Bound: bound}
			if c.three {
				st.Splitter = table
			}
			stm[2+a] = append(stm[2+a], st)
			desc += fmt.Sprintf("[%d:%d,%d,%v,%db]", 2+a, c.sign, c.f, c.three, c.diff.BitLen())
		}
	}
	cred, err := key.SignCred(ms)
	if err != nil {
		panic(err)
	}
	c13Judge(r, "composite", desc, key, cred, stm, idx%400 == 0)
}
