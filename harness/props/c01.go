package props

import (
	"fmt"
	"math/rand/v2"
	"runtime"

	"github.com/privacybydesign/gabi"
	"github.com/privacybydesign/gabi/big"
	"github.com/privacybydesign/gabi/gabikeys"

	"verifharness/mon"
	"verifharness/refimpl"
	"verifharness/world"
)

func init() {
	Registry["C01"] = &Check{
		Level: "exploration",
		Rule: "cases = (key, credential shape, disclosure set, proof operator) with operators honest | single/pair field alteration | split x+y | " +
			"response shifted by k*ord | index games; every case is verified by the real ProofD.Verify / ProofList.Verify; a case is non-trivial when the " +
			"verifier was entered with a proof that differs from the honest one (or is the honest one) and distinct by its (family, operator, index, band) descriptor hash; " +
			"oracle on every accepted proof: no index both disclosed and hidden, disclosed values equal the ledger (after the >Lm hashing rule), responses in range",
		Run: runC01,
	}
}

type c01ctx struct {
	r    *mon.Run
	key  *world.Key
	cred *world.Cred
	ctx  *big.Int
	non  *big.Int
	base *gabi.ProofD // an honest proof of cred under (ctx, non): earlier content of reused objects
}

// c01Post evaluates the acceptance postconditions on an accepted proof.
func c01Post(r *mon.Run, c *world.Cred, d *gabi.ProofD, family, desc string, ctx, nonce *big.Int) {
	pk := c.Key.PK
	replay := func() any {
		return map[string]any{"family": family, "desc": desc, "cred": dumpCred(c), "proof": dumpD(d), "context": dumpInt(ctx), "nonce": dumpInt(nonce)}
	}
	for i := range d.ADisclosed {
		if _, both := d.AResponses[i]; both {
			r.Violation("C01/index-both-disclosed-and-hidden", fmt.Sprintf("accepted proof reports index %d as disclosed and as hidden (%s)", i, desc), replay())
		}
	}
	for i, v := range d.ADisclosed {
		want := c.NormLedger(i)
		if refimpl.Norm(v, pk.Params.Lm).Cmp(want) != 0 {
			sig := "C01/unsigned-value-accepted"
			if _, both := d.AResponses[i]; both {
				sig = "C01/unsigned-value-accepted-via-split"
			}
			r.Violation(sig, fmt.Sprintf("accepted proof discloses %s at index %d, issuer signed %s (%s)", dumpInt(v), i, dumpInt(want), desc), replay())
		}
	}
	maxA := sub(pow2(pk.Params.LmCommit+1), bigOne)
	for i, a := range d.AResponses {
		if a.Sign() < 0 || a.Cmp(maxA) > 0 {
			r.Violation("C01/response-out-of-range", fmt.Sprintf("accepted proof has a_response[%d] outside [0,2^%d) (%s)", i, pk.Params.LmCommit+1, desc), replay())
		}
	}
	maxE := sub(pow2(pk.Params.LeCommit+1), bigOne)
	if d.EResponse.Sign() < 0 || d.EResponse.Cmp(maxE) > 0 {
		r.Violation("C01/e-response-out-of-range", fmt.Sprintf("accepted proof has e_response outside [0,2^%d) (%s)", pk.Params.LeCommit+1, desc), replay())
	}
}

// c01Try verifies a candidate through both entry points and applies the oracle.
func (x *c01ctx) try(family, desc string, d *gabi.ProofD) bool {
	r := x.r
	pk := x.key.PK
	r.Distinct(family, desc, x.key.Name)
	d1 := cloneD(d)
	ok, pv, stack := verifyD(pk, d1, x.ctx, x.non, false)
	r.Eval(family, outcome(ok, pv))
	if pv != nil {
		r.PanicSeen(mon.PanicSite(stack))
	}
	if ok {
		c01Post(r, x.cred, d1, family, desc+" via ProofD.Verify", x.ctx, x.non)
		if family == "B-alter" {
			r.Sample(map[string]any{"accepted_alteration": desc, "key": x.key.Name})
		}
	}
	d2 := cloneD(d)
	ok2, pv2, stack2 := verifyList(gabi.ProofList{d2}, []*gabikeys.PublicKey{pk}, x.ctx, x.non, false, nil)
	r.Eval(family+"/list", outcome(ok2, pv2))
	if pv2 != nil {
		r.PanicSeen(mon.PanicSite(stack2))
	}
	if ok2 {
		c01Post(r, x.cred, d2, family, desc+" via ProofList.Verify", x.ctx, x.non)
	}
	// a refused object tried again (Verify, then ProofList.Verify on the same object): still refused
	if !ok && pv == nil && !(d1.NonRevocationProof != nil && countSmall(d1) >= 2) {
		ok3, pv3, _ := verifyList(gabi.ProofList{d1}, []*gabikeys.PublicKey{pk}, x.ctx, x.non, false, nil)
		r.Eval(family+"/reverify", outcome(ok3, pv3))
		if ok3 {
			c01Post(r, x.cred, d1, family, desc+" at the second verification of the refused object", x.ctx, x.non)
			r.Violation("C01/rejected-then-accepted-on-reverify", "a proof refused at first verification is accepted when the same object is verified again ("+family+": "+desc+")",
				map[string]any{"family": family, "desc": desc, "cred": dumpCred(x.cred), "proof": dumpD(d)})
		}
	}
	// object history: the candidate placed into an object that has verified the honest proof before
	if x.base != nil && family != "A-honest" {
		w := cloneD(x.base)
		if okw, _, _ := verifyD(pk, w, x.ctx, x.non, false); okw {
			src := cloneD(d)
			w.C, w.A, w.EResponse, w.VResponse, w.AResponses, w.ADisclosed, w.NonRevocationProof, w.RangeProofs = src.C, src.A, src.EResponse, src.VResponse, src.AResponses, src.ADisclosed, src.NonRevocationProof, src.RangeProofs
			ok3, pv3, _ := verifyD(pk, w, x.ctx, x.non, false)
			r.Eval(family+"/reused-object", outcome(ok3, pv3))
			if ok3 {
				c01Post(r, x.cred, w, family, desc+" in an object that verified the honest proof before", x.ctx, x.non)
				if !ok {
					r.Violation("C01/verdict-depends-on-object-history", "a proof rejected in a fresh object is accepted in an object that verified another proof before ("+family+": "+desc+")",
						map[string]any{"family": family, "desc": desc, "cred": dumpCred(x.cred), "proof": dumpD(d), "earlier": dumpD(x.base)})
				}
			}
		}
	}
	return ok || ok2
}

// shiftBands returns shifted copies of v (by multiples of ord) landing in the bands around [0,B].
func shiftBands(v, ord, B *big.Int) map[string]*big.Int {
	out := map[string]*big.Int{}
	land := func(name string, lo, hi *big.Int) {
		// smallest k with v + k*ord >= lo  (k may be negative)
		diff := sub(lo, v)
		k := new(big.Int).Div(diff, ord) // floor
		cand := add(v, mul(k, ord))
		for cand.Cmp(lo) < 0 {
			cand.Add(cand, ord)
		}
		if cand.Cmp(hi) <= 0 && cand.Cmp(v) != 0 {
			out[name] = cand
		}
	}
	twoB := mul(B, bi(2))
	fourB := mul(B, bi(4))
	land("[-2B,-B)", new(big.Int).Neg(twoB), sub(new(big.Int).Neg(B), bigOne))
	land("[-B,0)", new(big.Int).Neg(B), bi(-1))
	land("(B,2B]", add(B, bigOne), twoB)
	land("(2B,4B]", add(twoB, bigOne), fourB)
	land("inside-high", sub(B, ord), B)
	land("inside-low", bi(0), ord)
	return out
}

// c01Nonrev: the same range and authenticity conditions on proofs that carry a non-revocation part (another branch of the
// verifier). A credential with a witness on a key whose QR-order is below the e-response bound; every response shifted by
// multiples of the order into the bands around its bound, and an altered disclosed value, must be refused.
func c01Nonrev(r *mon.Run) {
	key := world.Fixture("toy384a")
	pk := key.PK
	rng := r.Rand("nonrev")
	for rep := 0; rep < r.Pick(2, 8); rep++ {
		rev, err := world.NewRev(key)
		if err != nil {
			r.Inconclusive("no revocation authority for the non-revocation variant: " + err.Error())
			return
		}
		cred, err := key.SignCredRev([]*big.Int{randBig(rng, 250), bi(int64(1000 + rep)), randBig(rng, 200)}, rev)
		if err != nil {
			continue
		}
		ctx, non := freshNonces(rng)
		x := &c01ctx{r: r, key: key, cred: cred, ctx: ctx, non: non}
		honest, err := cred.C.CreateDisclosureProof([]int{1}, nil, true, ctx, non)
		if err != nil {
			continue
		}
		desc := fmt.Sprintf("non-revocation credential #%d D=[1]", rep)
		if !x.try("A-honest", desc, honest) {
			if countSmall(honest) < 2 {
				r.Violation("C01/honest-nonrev-proof-rejected", "honest proof with a non-revocation part rejected ("+desc+")", map[string]any{"cred": dumpCred(cred)})
			}
			continue
		}
		x.base = honest
		BA := sub(pow2(pk.Params.LmCommit+1), bigOne)
		BE := sub(pow2(pk.Params.LeCommit+1), bigOne)
		for _, i := range sortedKeys(honest.AResponses) {
			if i == cred.RevIdx {
				continue // tied to the non-revocation part as well
			}
			for band, nv := range shiftBands(honest.AResponses[i], key.Ord, BA) {
				d := cloneD(honest)
				d.AResponses[i] = nv
				if countSmall(d) >= 2 {
					continue // two candidates for the revocation attribute: the verdict depends on map order (known finding of C11)
				}
				x.try("D-shift-nonrev", fmt.Sprintf("%s a_responses[%d] band %s", desc, i, band), d)
			}
		}
		for band, nv := range shiftBands(honest.EResponse, key.Ord, BE) {
			d := cloneD(honest)
			d.EResponse = nv
			x.try("D-shift-nonrev", fmt.Sprintf("%s e_response band %s", desc, band), d)
		}
		for _, dl := range []int64{1, -1, 5} {
			d := cloneD(honest)
			d.ADisclosed[1] = add(d.ADisclosed[1], bi(dl))
			x.try("B-alter-nonrev", fmt.Sprintf("%s a_disclosed[1]%+d", desc, dl), d)
		}
		// split with the reference prover is covered by C11's transplant family; here: index in both maps
		d := cloneD(honest)
		d.AResponses[1] = mul(d.C, d.ADisclosed[1])
		x.try("B-alter-nonrev", desc+" dup index 1 into a_responses", d)
	}
	r.FloorFam("D-shift-nonrev", 8)
}

func runC01(r *mon.Run) {
	c01Nonrev(r)
	r.Assume("value-comparing families use keys with Ln>=384 so that x and x+ord(QR_n) are not two in-range representations of one exponent")
	r.Assume("attribute equality is taken after the scheme's own hashing rule (values longer than Lm bits are signed as their SHA-256 digest)")
	keys := []string{"toy512a", "toy384a", "fix1024a"} // toy384a: ord(QR_n) < 2^l_e-commit, so that e-responses shifted by multiples of the order reach the bands around the bound
	if r.Thorough() {
		keys = []string{"toy512a", "toy384a", "toy512b", "toy512z", "fix1024a", "fix1024b", "fix2048a"}
	}
	type job struct {
		key     string
		nAttr   int
		profile int
		seed    uint64
	}
	var jobs []job
	rng := r.Rand("jobs")
	for _, kn := range keys {
		reps := r.Pick(1, 8)
		maxAttr := 4
		if r.Thorough() {
			maxAttr = 6
		}
		if kn[:3] == "fix" {
			reps = 1
			maxAttr = r.Pick(2, 3)
		}
		for rep := 0; rep < reps; rep++ {
			for n := 1; n <= maxAttr; n++ {
				jobs = append(jobs, job{kn, n, rng.IntN(9), rng.Uint64()})
			}
		}
	}
	mon.Parallel(len(jobs), runtime.NumCPU(), func(ji int) {
		j := jobs[ji]
		jr := rand.New(rand.NewPCG(j.seed, 1))
		key := world.Fixture(j.key)
		cred := mkCred(jr, key, j.nAttr, j.profile)
		sets := subsets(j.nAttr)
		if j.nAttr > 4 || j.key[:3] == "fix" {
			// sample for the larger shapes
			jr.Shuffle(len(sets), func(a, b int) { sets[a], sets[b] = sets[b], sets[a] })
			if len(sets) > 6 {
				sets = sets[:6]
			}
		}
		for _, D := range sets {
			ctx, non := freshNonces(jr)
			x := &c01ctx{r: r, key: key, cred: cred, ctx: ctx, non: non}
			c01Set(x, jr, D)
		}
	})
	r.FloorAccept("A-honest", 10)
	r.FloorFam("B-alter", 100)
	r.FloorFam("C-split", 50)
	r.FloorFam("D-shift", 20)
	r.FloorFam("E-index", 20)
	r.FloorFam("F-degenerate", 50)
	r.FloorFam("G-preimage", 20)
	r.FloorFam("F-list", 20)
	r.FloorAccept("ref-honest", 10)
}

func c01Set(x *c01ctx, rng *rand.Rand, D []int) {
	r, cred, pk := x.r, x.cred, x.key.PK
	n := len(cred.Ledger)
	// A. honest library proof
	honest, err := cred.C.CreateDisclosureProof(D, nil, false, x.ctx, x.non)
	if err != nil {
		r.Eval("A-honest", "error")
		return
	}
	desc := fmt.Sprintf("n=%d D=%v", n, D)
	if !x.try("A-honest", desc, honest) {
		r.Sample(map[string]any{"honest_rejected": desc})
		return
	}
	x.base = honest
	if r.Evals()%500 < 2 {
		r.Sample(map[string]any{"family": "A-honest", "key": x.key.Name, "ledger_bits": bitlens(cred.Ledger), "disclosed": D})
	}

	// reference prover, honest mode (validates the adversary machinery)
	dis, hid := hiddenOf(cred, D)
	rp := refimpl.NewDProver(pk, cred.C.Signature, dis, hid)
	if !x.try("ref-honest", desc, rp.ProveD(x.ctx, x.non, false)) {
		r.Violation("C01/harness-reference-prover-rejected", "honest proof of the reference prover rejected: harness or library defect, resolve first", map[string]any{"desc": desc, "cred": dumpCred(cred)})
	}

	// B. single-field alterations
	alts := []struct {
		name string
		f    func(v *big.Int) *big.Int
	}{
		{"+1", func(v *big.Int) *big.Int { return add(v, bigOne) }},
		{"-1", func(v *big.Int) *big.Int { return sub(v, bigOne) }},
		{"flip", func(v *big.Int) *big.Int { return new(big.Int).Xor(v, pow2(uint(rng.IntN(64)))) }},
		{"zero", func(v *big.Int) *big.Int { return bi(0) }},
		{"digest", func(v *big.Int) *big.Int { return refimpl.IntHash(v.Bytes()) }},
	}
	fields := []struct {
		name string
		get  func(d *gabi.ProofD) **big.Int
	}{
		{"c", func(d *gabi.ProofD) **big.Int { return &d.C }},
		{"A", func(d *gabi.ProofD) **big.Int { return &d.A }},
		{"e_response", func(d *gabi.ProofD) **big.Int { return &d.EResponse }},
		{"v_response", func(d *gabi.ProofD) **big.Int { return &d.VResponse }},
	}
	for _, f := range fields {
		for _, a := range alts {
			d := cloneD(honest)
			p := f.get(d)
			nv := a.f(*p)
			if nv.Cmp(*p) == 0 {
				continue
			}
			*p = nv
			x.try("B-alter", fmt.Sprintf("%s %s %s", desc, f.name, a.name), d)
		}
	}
	for _, i := range sortedKeys(honest.AResponses) {
		for _, a := range alts {
			d := cloneD(honest)
			nv := a.f(d.AResponses[i])
			if nv.Cmp(d.AResponses[i]) == 0 {
				continue
			}
			d.AResponses[i] = nv
			x.try("B-alter", fmt.Sprintf("%s a_responses[%d] %s", desc, i, a.name), d)
		}
		// sibling swap
		for _, j := range sortedKeys(honest.AResponses) {
			if j > i {
				d := cloneD(honest)
				d.AResponses[i], d.AResponses[j] = d.AResponses[j], d.AResponses[i]
				x.try("B-alter", fmt.Sprintf("%s swap a_responses[%d,%d]", desc, i, j), d)
			}
		}
	}
	for _, i := range sortedKeys(honest.ADisclosed) {
		for _, a := range alts {
			d := cloneD(honest)
			nv := a.f(d.ADisclosed[i])
			if nv.Cmp(d.ADisclosed[i]) == 0 {
				continue
			}
			if a.name == "digest" && d.ADisclosed[i].BitLen() > int(pk.Params.Lm) {
				continue // value <-> digest of an oversized value is the same signed exponent: neutral
			}
			d.ADisclosed[i] = nv
			x.try("B-alter", fmt.Sprintf("%s a_disclosed[%d] %s", desc, i, a.name), d)
		}
		for _, j := range sortedKeys(honest.ADisclosed) {
			if j > i && refimpl.Norm(honest.ADisclosed[i], pk.Params.Lm).Cmp(refimpl.Norm(honest.ADisclosed[j], pk.Params.Lm)) != 0 {
				d := cloneD(honest)
				d.ADisclosed[i], d.ADisclosed[j] = d.ADisclosed[j], d.ADisclosed[i]
				x.try("B-alter", fmt.Sprintf("%s swap a_disclosed[%d,%d]", desc, i, j), d)
			}
		}
		// pairwise: disclosed value +d together with response -c*d at the hidden indices
		for _, j := range sortedKeys(honest.AResponses) {
			for _, dl := range []int64{1, -1, 1000} {
				d := cloneD(honest)
				d.ADisclosed[i] = add(d.ADisclosed[i], bi(dl))
				if d.ADisclosed[i].Sign() < 0 {
					continue
				}
				d.AResponses[j] = sub(d.AResponses[j], mul(d.C, bi(dl)))
				x.try("B-alter", fmt.Sprintf("%s rebalance a_disclosed[%d]%+d vs a_responses[%d]", desc, i, dl, j), d)
			}
		}
		// move disclosed value to a hidden response slot of the same index (both)
		d := cloneD(honest)
		d.AResponses[i] = mul(d.C, refimpl.Norm(d.ADisclosed[i], pk.Params.Lm))
		x.try("B-alter", fmt.Sprintf("%s dup index %d into a_responses", desc, i), d)
	}

	// C. split attack with the reference prover
	for i := 0; i < n; i++ {
		mi := cred.NormLedger(i)
		xs := map[string]*big.Int{
			"0": bi(0), "1": bi(1), "m-1": sub(mi, bigOne), "m": cp(mi), "m+1": add(mi, bigOne), "2m": mul(mi, bi(2)),
			"rand": randBig(rng, 200), "wish": bi(9999),
		}
		for name, xv := range xs {
			if xv.Sign() < 0 {
				continue
			}
			dis, hid := hiddenOf(cred, D)
			dis[i] = xv
			hid[i] = sub(mi, refimpl.Norm(xv, pk.Params.Lm))
			p := refimpl.NewDProver(pk, cred.C.Signature, dis, hid)
			x.try("C-split", fmt.Sprintf("%s split index %d x=%s", desc, i, name), p.ProveD(x.ctx, x.non, false))
		}
	}
	// wrong value with no compensation (plain lie)
	for _, i := range D {
		dis, hid := hiddenOf(cred, D)
		dis[i] = add(dis[i], bi(5))
		p := refimpl.NewDProver(pk, cred.C.Signature, dis, hid)
		x.try("C-split", fmt.Sprintf("%s lie index %d", desc, i), p.ProveD(x.ctx, x.non, false))
	}

	// D. trapdoor shifts of responses by k*ord
	ord := x.key.Ord
	BA := sub(pow2(pk.Params.LmCommit+1), bigOne)
	BE := sub(pow2(pk.Params.LeCommit+1), bigOne)
	for _, i := range sortedKeys(honest.AResponses) {
		for band, nv := range shiftBands(honest.AResponses[i], ord, BA) {
			d := cloneD(honest)
			d.AResponses[i] = nv
			x.try("D-shift", fmt.Sprintf("%s a_responses[%d] band %s", desc, i, band), d)
		}
	}
	for band, nv := range shiftBands(honest.EResponse, ord, BE) {
		d := cloneD(honest)
		d.EResponse = nv
		x.try("D-shift", fmt.Sprintf("%s e_response band %s", desc, band), d)
	}

	// disclosed values moved by multiples of the group order (same power of R_i, another integer than the issuer signed):
	// in memory, where the integer may be negative, and with the magnitude alone
	for _, i := range D {
		for _, k := range []int64{-1, -2, 1} {
			nv := add(cred.Ledger[i], mul(bi(k), ord))
			d := cloneD(honest)
			d.ADisclosed[i] = nv
			x.try("D-shift-disclosed", fmt.Sprintf("%s disclosed[%d] %+d*ord", desc, i, k), d)
			if nv.Sign() < 0 {
				d = cloneD(honest)
				d.ADisclosed[i] = new(big.Int).Abs(nv)
				x.try("D-shift-disclosed", fmt.Sprintf("%s disclosed[%d] |%+d*ord|", desc, i, k), d)
			}
		}
	}

	// E. index games: entries at indices the issuer never signed
	for idx := n; idx < len(pk.R); idx++ {
		for _, val := range []int64{0, 7} {
			dis, hid := hiddenOf(cred, D)
			dis[idx] = bi(val)
			p := refimpl.NewDProver(pk, cred.C.Signature, dis, hid)
			x.try("E-index", fmt.Sprintf("%s disclosed[%d]=%d (unsigned index)", desc, idx, val), p.ProveD(x.ctx, x.non, false))
			dis, hid = hiddenOf(cred, D)
			hid[idx] = bi(val)
			p = refimpl.NewDProver(pk, cred.C.Signature, dis, hid)
			x.try("E-index", fmt.Sprintf("%s hidden[%d]=%d (unsigned index)", desc, idx, val), p.ProveD(x.ctx, x.non, false))
		}
		if idx > n+1 && idx < len(pk.R)-2 {
			idx = len(pk.R) - 2 // first two unsigned indices, then the last base of the key
		}
	}
	// ... and the same entries simply added to the honest proof (nothing else touched): an index the issuer never signed stands
	// for the signed value 0, any other value reported there is unsigned - at every base of the key up to the last one
	for idx := n; idx < len(pk.R); idx++ {
		for _, val := range []*big.Int{bi(7), pow2(300), bi(0)} {
			d := cloneD(honest)
			d.ADisclosed[idx] = cp(val)
			x.try("E-index-injected", fmt.Sprintf("%s disclosed[%d]=%s added to the honest proof (unsigned index)", desc, idx, dumpInt(val)), d)
		}
	}
	// G. digest / pre-image confusion at the message-length boundary: the issuer signed m = SHA-256(x) as an ordinary
	// (short) attribute; the holder makes an honest proof disclosing m and then reports x instead. For x longer than Lm bits
	// that is the scheme's own hashing rule (x and m are the same signed exponent); for x of exactly Lm or fewer bits the
	// verifier must take x itself as the exponent and refuse.
	for _, xb := range []uint{pk.Params.Lm - 1, pk.Params.Lm, pk.Params.Lm + 1, pk.Params.Lm + 9} {
		xv := randBig(rng, int(xb))
		xv.SetBit(xv, int(xb)-1, 1)
		mDigest := refimpl.IntHash(xv.Bytes())
		attrs := []*big.Int{randBig(rng, 255), mDigest, bi(77)}
		c2, err := x.key.SignCred(attrs)
		if err != nil {
			continue
		}
		d2, err := c2.C.CreateDisclosureProof([]int{1}, nil, false, x.ctx, x.non)
		if err != nil {
			continue
		}
		d2.ADisclosed[1] = cp(xv)
		x2 := &c01ctx{r: r, key: x.key, cred: c2, ctx: x.ctx, non: x.non}
		x2.try("G-preimage", fmt.Sprintf("%s signed SHA-256(x), reported x of %d bits (Lm=%d)", desc, xb, pk.Params.Lm), d2)
	}

	// F. forgery without any credential: a randomised signature element A that is not a group element (0, a multiple
	// of N, a multiple of one prime factor) makes factors of the reconstructed commitment collapse, so that the
	// challenge can be computed up front from a guessed commitment and every other field chosen freely.
	{
		P := x.key.SK.P
		degA := map[string]*big.Int{"0": bi(0), "N": cp(pk.N), "2N": mul(pk.N, bi(2)), "-N": new(big.Int).Neg(pk.N), "p": cp(P), "p*k": mul(P, bi(int64(3+rng.IntN(1000)))), "1": bi(1), "N-1": sub(pk.N, bigOne), "N+1": add(pk.N, bigOne)}
		for _, an := range sortedStrKeys(degA) {
			for zn, z := range map[string]*big.Int{"0": bi(0), "1": bi(1), "Z": cp(pk.Z)} {
				d := &gabi.ProofD{A: cp(degA[an]), EResponse: randBig(rng, int(pk.Params.LeCommit)), VResponse: randBig(rng, int(pk.Params.LvCommit)),
					AResponses: map[int]*big.Int{}, ADisclosed: map[int]*big.Int{}}
				for i := 0; i < n; i++ {
					if inInts(D, i) {
						d.ADisclosed[i] = bi(int64(9000 + i)) // wished values, never signed
					} else {
						d.AResponses[i] = randBig(rng, int(pk.Params.LmCommit))
					}
				}
				d.C = refimpl.Challenge(x.ctx, x.non, []*big.Int{d.A, z}, false)
				x.try("F-degenerate", fmt.Sprintf("%s forged without credential: A=%s, challenge for guessed commitment %s", desc, an, zn), d)
			}
		}
	}

	// F'. the same kind of fabricated proof riding in a list next to the honest proof of this session: its own challenge
	// contribution cannot be computed (A is not invertible, or an index sits in both maps), its challenge and secret-key
	// response are copied from the honest member. Whatever a list verifier does about the failing member, it must not
	// report the fabricated values as verified.
	if honest.AResponses[0] != nil {
		for _, kind := range []string{"A=N", "A=0", "index in both maps"} {
			f := &gabi.ProofD{C: cp(honest.C), A: cp(pk.N), EResponse: randBig(rng, int(pk.Params.LeCommit)), VResponse: randBig(rng, int(pk.Params.LvCommit)),
				AResponses: map[int]*big.Int{0: cp(honest.AResponses[0])}, ADisclosed: map[int]*big.Int{}}
			for i := 1; i < n; i++ {
				f.ADisclosed[i] = bi(int64(7000 + i))
			}
			switch kind {
			case "A=0":
				f.A = bi(0)
			case "index in both maps":
				f.A = cp(honest.A)
				if n > 1 {
					f.AResponses[1] = randBig(rng, int(pk.Params.LmCommit))
				}
			}
			if n < 2 {
				continue
			}
			for _, order := range []string{"forged first", "forged last"} {
				lst := gabi.ProofList{cloneD(f), cloneD(honest)}
				if order == "forged last" {
					lst = gabi.ProofList{cloneD(honest), cloneD(f)}
				}
				d2 := fmt.Sprintf("%s fabricated proof (%s) in a list with the honest one, %s", desc, kind, order)
				r.Distinct("F-list", d2, x.key.Name)
				ok, pv, stack := verifyList(lst, []*gabikeys.PublicKey{pk, pk}, x.ctx, x.non, false, nil)
				r.Eval("F-list", outcome(ok, pv))
				if pv != nil {
					r.PanicSeen(mon.PanicSite(stack))
				}
				if ok {
					for _, m := range lst {
						c01Post(r, cred, m.(*gabi.ProofD), "F-list", d2+" via ProofList.Verify", x.ctx, x.non)
					}
				}
			}
		}
	}

	// proving must not have modified the credential (later proofs would then report other values than the issuer signed)
	for i := range cred.Ledger {
		if cred.C.Attributes[i].Cmp(cred.Ledger[i]) != 0 {
			r.Violation("C01/credential-modified-by-proving", fmt.Sprintf("attribute %d of the credential object changed while proofs were made from it (%s)", i, desc), map[string]any{"cred": dumpCred(cred), "now": dumpInt(cred.C.Attributes[i])})
			cred.C.Attributes[i] = cp(cred.Ledger[i])
		}
	}
	// hide nothing / disclose the secret key entirely
	dis, hid = hiddenOf(cred, append([]int{0}, D...))
	p := refimpl.NewDProver(pk, cred.C.Signature, dis, hid)
	x.try("E-index", fmt.Sprintf("%s disclose secret", desc), p.ProveD(x.ctx, x.non, false))
}

func bitlens(s []*big.Int) []int {
	out := make([]int, len(s))
	for i, v := range s {
		out[i] = v.BitLen()
	}
	return out
}
