package props

import (
	"bytes"
	"encoding/base64"
	"encoding/json"
	"fmt"
	"math/rand/v2"
	"os"
	"os/exec"
	"path/filepath"
	"regexp"
	"runtime"
	"sort"
	"strconv"
	"strings"

	"github.com/privacybydesign/gabi"
	"github.com/privacybydesign/gabi/big"
	"github.com/privacybydesign/gabi/gabikeys"
	"github.com/privacybydesign/gabi/rangeproof"

	"verifharness/mon"
	"verifharness/world"
)

func init() {
	Registry["C08"] = &Check{
		Level: "exploration",
		Rule: "seed corpus = honest proof lists as JSON (disclosure, issuance, with non-revocation and range parts, 1..3 proofs); cases = structure-aware mutations of the JSON tree, enumerated per node (delete, null, wrong type, numeric edge values 0/1/N/huge/negative/float, " +
			"re-keying of every index-keyed map entry to -1, 0, len(R)-1, len(R), 2^31, 2^63, text; array truncation/extension; sub-tree swaps between proofs; range proofs moved to disclosed/unknown/other indices; non-revocation parts verified under keys without revocation support; minimal documents) plus seeded pairs and byte-level mutations; " +
			"each document is decoded with json.Unmarshal into ProofList and IssueCommitmentMessage and verified with ProofList.Verify, ProofD.Verify, ProofU.Verify under recover; non-trivial = the document decoded and a verifier was entered; distinct by document hash; " +
			"oracle: no panic anywhere, and documents of the malformation classes M1 (mandatory field missing/null), M2 (index key negative or >= len(R)), M3 (sub-proof partial/misplaced/inconsistent) must be rejected",
		Run:    runC08,
		Replay: replayC08,
	}
}

type jmut struct {
	desc  string
	class string // "", "M1", "M2", "M3"
	doc   []byte
}

// deepCopyJSON copies a decoded JSON tree.
func deepCopyJSON(v any) any {
	switch x := v.(type) {
	case map[string]any:
		m := make(map[string]any, len(x))
		for k, e := range x {
			m[k] = deepCopyJSON(e)
		}
		return m
	case []any:
		a := make([]any, len(x))
		for i, e := range x {
			a[i] = deepCopyJSON(e)
		}
		return a
	}
	return v
}

func decodeTree(doc []byte) any {
	dec := json.NewDecoder(bytes.NewReader(doc))
	dec.UseNumber()
	var v any
	if err := dec.Decode(&v); err != nil {
		panic(err)
	}
	return v
}

type jpath []any // string keys and int indices

func (p jpath) String() string {
	var sb strings.Builder
	for _, e := range p {
		switch x := e.(type) {
		case string:
			sb.WriteString("." + x)
		case int:
			sb.WriteString("[" + strconv.Itoa(x) + "]")
		}
	}
	return sb.String()
}

func getAt(root any, p jpath) any {
	cur := root
	for _, e := range p {
		switch x := e.(type) {
		case string:
			m, ok := cur.(map[string]any)
			if !ok {
				return nil
			}
			cur = m[x]
		case int:
			a, ok := cur.([]any)
			if !ok || x >= len(a) {
				return nil
			}
			cur = a[x]
		}
	}
	return cur
}

// setAt returns a copy of root with the node at p replaced (del=true removes it).
func setAt(root any, p jpath, val any, del bool) any {
	root = deepCopyJSON(root)
	if len(p) == 0 {
		return val
	}
	parent := getAt(root, p[:len(p)-1])
	switch last := p[len(p)-1].(type) {
	case string:
		m := parent.(map[string]any)
		if del {
			delete(m, last)
		} else {
			m[last] = val
		}
	case int:
		a := parent.([]any)
		if del {
			na := append(append([]any{}, a[:last]...), a[last+1:]...)
			return setAt(root, p[:len(p)-1], na, false)
		}
		a[last] = val
	}
	return root
}

func walk(v any, p jpath, f func(p jpath, v any)) {
	f(p, v)
	switch x := v.(type) {
	case map[string]any:
		keys := make([]string, 0, len(x))
		for k := range x {
			keys = append(keys, k)
		}
		sort.Strings(keys)
		for _, k := range keys {
			walk(x[k], append(append(jpath{}, p...), k), f)
		}
	case []any:
		for i, e := range x {
			walk(e, append(append(jpath{}, p...), i), f)
		}
	}
}

var (
	mandatoryD  = map[string]bool{"c": true, "A": true, "e_response": true, "v_response": true, "a_responses": true}
	mandatoryU  = map[string]bool{"U": true, "c": true, "v_prime_response": true, "s_response": true}
	mandatoryNR = map[string]bool{"C_r": true, "C_u": true, "responses": true, "sacc": true, "beta": true, "delta": true, "epsilon": true, "zeta": true}
	mandatoryRP = map[string]bool{"Cs": true, "ds": true, "vs": true, "v5": true, "k": true}
	indexMaps   = map[string]bool{"a_responses": true, "a_disclosed": true, "m_user_responses": true, "rangeproofs": true}
)

// classOfRemoval says whether removing/nulling the node at p makes the document malformed (M1).
func classOfRemoval(root any, p jpath) string {
	if len(p) == 0 {
		return ""
	}
	name, ok := p[len(p)-1].(string)
	if !ok {
		return ""
	}
	in := func(s string) bool {
		for _, e := range p[:len(p)-1] {
			if e == s {
				return true
			}
		}
		return false
	}
	switch {
	case in("nonrev_proof"):
		if mandatoryNR[name] {
			return "M1"
		}
	case in("rangeproofs"):
		if mandatoryRP[name] {
			return "M1"
		}
	case len(p) == 2: // [i].field
		parent, _ := getAt(root, p[:1]).(map[string]any)
		if parent != nil {
			if _, isD := parent["A"]; isD && mandatoryD[name] && name != "A" {
				return "M1"
			}
			if _, isU := parent["U"]; isU && mandatoryU[name] && name != "U" {
				return "M1"
			}
		}
	}
	return ""
}

func b64(v *big.Int) string { return base64.StdEncoding.EncodeToString(v.Bytes()) }

func marshalTree(v any) []byte {
	b, err := json.Marshal(v)
	if err != nil {
		panic(err)
	}
	return b
}

// structuralMutations enumerates the per-node mutations of a proof-list document.
func structuralMutations(root any, rlen int, N *big.Int) []jmut {
	var out []jmut
	add := func(desc, class string, tree any) {
		out = append(out, jmut{desc, class, marshalTree(tree)})
	}
	replacements := []struct {
		name string
		v    any
	}{
		{"number5", json.Number("5")}, {"string-x", "x"}, {"b64-1", "AQ=="}, {"empty-object", map[string]any{}}, {"empty-array", []any{}}, {"true", true},
	}
	numeric := []struct {
		name string
		v    any
	}{
		{"empty-string(0)", ""}, {"zero", "AA=="}, {"one", "AQ=="}, {"N", b64(N)}, {"N-1", b64(sub(N, bigOne))}, {"huge", b64(pow2(5000))},
		{"bare-negative", json.Number("-5")}, {"bare-float", json.Number("1.5")}, {"bare-huge", json.Number("1" + strings.Repeat("0", 400))},
	}
	walk(root, nil, func(p jpath, v any) {
		if len(p) == 0 {
			return
		}
		ps := p.String()
		cls := classOfRemoval(root, p)
		add("delete "+ps, cls, setAt(root, p, nil, true))
		add("null "+ps, cls, setAt(root, p, nil, false))
		for _, rep := range replacements {
			add("type "+ps+" -> "+rep.name, "", setAt(root, p, rep.v, false))
		}
		switch x := v.(type) {
		case string:
			for _, nv := range numeric {
				add("value "+ps+" -> "+nv.name, "", setAt(root, p, nv.v, false))
			}
		case json.Number:
			for _, nv := range []string{"0", "-1", "1", "2", "3", "4", "5", "255", "256", "257", "4294967296", "18446744073709551615", "9223372036854775808", "-9223372036854775808", "1.5"} {
				add("number "+ps+" -> "+nv, "", setAt(root, p, json.Number(nv), false))
			}
		case []any:
			if len(x) > 0 {
				add("truncate "+ps, arrayClass(p), setAt(root, p, deepCopyJSON(x[:len(x)-1]), false))
				add("extend "+ps, arrayClass(p), setAt(root, p, append(deepCopyJSON(x).([]any), deepCopyJSON(x[len(x)-1])), false))
				add("empty "+ps, arrayClass(p), setAt(root, p, []any{}, false))
			}
		case map[string]any:
			name, _ := p[len(p)-1].(string)
			if indexMaps[name] {
				keys := make([]string, 0, len(x))
				for k := range x {
					keys = append(keys, k)
				}
				sort.Strings(keys)
				for _, k := range keys {
					for _, nk := range []string{"-1", "0", strconv.Itoa(rlen - 1), strconv.Itoa(rlen), strconv.Itoa(rlen + 1), "2147483648", "9223372036854775807", "9223372036854775808", "abc", "1.0", " 1", "01"} {
						if nk == k {
							continue
						}
						nm := deepCopyJSON(x).(map[string]any)
						val := nm[k]
						delete(nm, k)
						_, clash := nm[nk]
						nm[nk] = val
						class := ""
						if iv, err := strconv.ParseInt(nk, 10, 64); err == nil && (iv < 0 || iv >= int64(rlen)) {
							class = "M2"
						}
						d := fmt.Sprintf("rekey %s %s -> %q", ps, k, nk)
						if clash {
							d += " (overwrites)"
						}
						add(d, class, setAt(root, p, nm, false))
					}
				}
			}
		}
	})
	return out
}

func arrayClass(p jpath) string {
	name, _ := p[len(p)-1].(string)
	if name == "Cs" || name == "ds" || name == "vs" {
		return "M3" // unequal lengths / wrong square count
	}
	return ""
}

// crossMutations swaps sub-trees between proofs and moves optional sub-proofs around.
func crossMutations(root any, rlen int) []jmut {
	var out []jmut
	list, ok := root.([]any)
	if !ok {
		return nil
	}
	add := func(desc, class string, tree any) {
		out = append(out, jmut{desc, class, marshalTree(tree)})
	}
	for i := range list {
		pi, _ := list[i].(map[string]any)
		for j := range list {
			pj, _ := list[j].(map[string]any)
			if i >= j || pi == nil || pj == nil {
				continue
			}
			for k := range pi {
				if _, ok := pj[k]; ok {
					t := deepCopyJSON(root).([]any)
					a, b := t[i].(map[string]any), t[j].(map[string]any)
					a[k], b[k] = b[k], a[k]
					add(fmt.Sprintf("swap [%d].%s <-> [%d].%s", i, k, j, k), "", t)
				}
			}
			for _, k := range []string{"nonrev_proof", "rangeproofs"} {
				if v, ok := pi[k]; ok {
					if _, has := pj[k]; !has {
						if _, isD := pj["A"]; !isD {
							continue
						}
						t := deepCopyJSON(root).([]any)
						t[j].(map[string]any)[k] = deepCopyJSON(v)
						add(fmt.Sprintf("copy [%d].%s -> [%d]", i, k, j), "", t)
						t2 := deepCopyJSON(root).([]any)
						t2[j].(map[string]any)[k] = deepCopyJSON(v)
						delete(t2[i].(map[string]any), k)
						add(fmt.Sprintf("move [%d].%s -> [%d]", i, k, j), "", t2)
					}
				}
			}
		}
		if pi == nil {
			continue
		}
		// range proofs moved to other indices of the same proof
		if rp, ok := pi["rangeproofs"].(map[string]any); ok {
			resp, _ := pi["a_responses"].(map[string]any)
			disc, _ := pi["a_disclosed"].(map[string]any)
			for from, val := range rp {
				var targets []string
				for k := range disc {
					targets = append(targets, k)
				}
				for k := range resp {
					if k != from {
						targets = append(targets, k)
					}
				}
				targets = append(targets, strconv.Itoa(rlen-1), strconv.Itoa(rlen), "-1", "1000")
				sort.Strings(targets)
				for _, to := range targets {
					for _, keep := range []bool{false, true} {
						t := deepCopyJSON(root).([]any)
						m := t[i].(map[string]any)["rangeproofs"].(map[string]any)
						if !keep {
							delete(m, from)
						}
						m[to] = deepCopyJSON(val)
						class := ""
						if _, hidden := resp[to]; !hidden {
							class = "M3" // range proof keyed to an index that is not hidden in this proof
						}
						add(fmt.Sprintf("rangeproof [%d] %s -> %s keep=%v", i, from, to, keep), class, t)
					}
				}
				// 3-square shape with a != 4 / wrong counts
				if arr, ok := val.([]any); ok && len(arr) > 0 {
					if p0, ok := arr[0].(map[string]any); ok {
						if cs, ok := p0["Cs"].([]any); ok && len(cs) == 4 {
							t := deepCopyJSON(root).([]any)
							q := t[i].(map[string]any)["rangeproofs"].(map[string]any)[from].([]any)[0].(map[string]any)
							q["Cs"] = q["Cs"].([]any)[:3]
							q["ds"] = q["ds"].([]any)[:3]
							q["vs"] = q["vs"].([]any)[:3]
							add(fmt.Sprintf("rangeproof [%d] %s cut to 3 squares with a=%v", i, from, q["a"]), "M3", t)
						}
						t := deepCopyJSON(root).([]any)
						q := t[i].(map[string]any)["rangeproofs"].(map[string]any)[from].([]any)
						t[i].(map[string]any)["rangeproofs"].(map[string]any)[from] = append(q, nil)
						add(fmt.Sprintf("rangeproof [%d] %s list gets a null entry", i, from), "M3", t)
					}
				}
			}
		}
	}
	return out
}

var minimalDocs = []string{
	`[]`, `[{}]`, `[null]`, `[{"A":"AQ=="}]`, `[{"U":"AQ=="}]`, `[{"A":"AQ==","c":"AQ=="}]`, `[{"A":"AQ==","c":"AQ==","e_response":"AQ==","v_response":"AQ=="}]`,
	`[{"A":"AQ==","c":"AQ==","e_response":"AQ==","v_response":"AQ==","a_responses":{"0":"AQ=="}}]`,
	`[{"A":"AQ==","c":"AQ==","e_response":"AQ==","v_response":"AQ==","a_responses":{"0":null}}]`,
	`[{"A":"AQ==","c":"AQ==","e_response":"AQ==","v_response":"AQ==","a_responses":{"0":"AQ=="},"a_disclosed":{"1":null}}]`,
	`[{"A":"AQ==","c":"AQ==","e_response":"AQ==","v_response":"AQ==","a_responses":{"0":"AQ=="},"nonrev_proof":{}}]`,
	`[{"A":"AQ==","c":"AQ==","e_response":"AQ==","v_response":"AQ==","a_responses":{"0":"AQ=="},"nonrev_proof":{"responses":null}}]`,
	`[{"A":"AQ==","c":"AQ==","e_response":"AQ==","v_response":"AQ==","a_responses":{"0":"AQ=="},"nonrev_proof":{"sacc":{"data":"","pk":0}}}]`,
	`[{"A":"AQ==","c":"AQ==","e_response":"AQ==","v_response":"AQ==","a_responses":{"0":"AQ=="},"rangeproofs":{"0":[null]}}]`,
	`[{"A":"AQ==","c":"AQ==","e_response":"AQ==","v_response":"AQ==","a_responses":{"0":"AQ=="},"rangeproofs":{"0":[{}]}}]`,
	`[{"A":"AQ==","c":"AQ==","e_response":"AQ==","v_response":"AQ==","a_responses":{"0":"AQ=="},"rangeproofs":{"0":[{"Cs":[null,null,null],"ds":[null,null,null],"vs":[null,null,null],"v5":"AQ==","a":4,"k":"AQ==","sign":1}]}}]`,
	`[{"A":"AQ==","c":"AQ==","e_response":"AQ==","v_response":"AQ==","a_responses":{"0":"AQ=="},"rangeproofs":{"1":[{"Cs":["AQ==","AQ==","AQ==","AQ=="],"ds":["AQ==","AQ==","AQ==","AQ=="],"vs":["AQ==","AQ==","AQ==","AQ=="],"v5":"AQ==","a":1,"k":"AQ==","sign":1}]}}]`,
	`[{"U":"AQ==","c":"AQ=="}]`, `[{"U":"AQ==","c":"AQ==","v_prime_response":"AQ=="}]`, `[{"U":"AQ==","c":"AQ==","s_response":"AQ=="}]`,
	`[{"U":"AQ==","c":"AQ==","v_prime_response":"AQ==","s_response":"AQ==","m_user_responses":{"1":null}}]`,
	`[{"U":"AQ==","c":"AQ==","v_prime_response":"AQ==","s_response":"AQ==","m_user_responses":{"99":"AQ=="}}]`,
	`[{"U":"AA==","c":"AQ==","v_prime_response":"AQ==","s_response":"AQ=="}]`,
	`[{"A":"AA==","c":"AQ==","e_response":"AQ==","v_response":"AQ==","a_responses":{"0":"AQ=="}}]`,
	`{}`, `null`, `"x"`, `[[]]`, `[1]`, `["AQ=="]`,
}

type c08seedDoc struct {
	name  string
	doc   []byte
	pks   []*gabikeys.PublicKey
	ctx   *big.Int
	nonce *big.Int
	// reject: the document itself is malformed (and so is everything derived from it)
	reject bool
}

// c08Corpus builds honest lists.
func c08Corpus(r *mon.Run, jr *rand.Rand, keyNames []string) []*c08seedDoc {
	var out []*c08seedDoc
	shapes := [][]string{
		{"D"}, {"Dn"}, {"Dr"}, {"Dnr"}, {"U"}, {"Ub"}, {"D", "U"}, {"Dnr", "Ub"}, {"Dn", "D", "U"}, {"Dr", "Dr"}, {"Dr3"},
		// cryptographically consistent lists that are nevertheless malformed: a member discloses attribute 0 and so carries
		// no secret-key response (every member passes its own challenge check; only the linking step can refuse the list)
		{"D0"}, {"D", "D0"}, {"D0", "D"}, {"U", "D0"}, {"D", "D0", "D"}, {"Dn", "D0n"}, {"D0", "D0"},
	}
	for _, kn := range keyNames {
		k := world.Fixture(kn)
		for _, shape := range shapes {
			secret := randBig(jr, 250)
			ctx, nonce := freshNonces(jr)
			var builders gabi.ProofBuilderList
			var pks []*gabikeys.PublicKey
			bad := false
			for _, s := range shape {
				pks = append(pks, k.PK)
				if s[0] == 'U' {
					var blind []int
					if strings.Contains(s, "b") {
						blind = []int{1}
					}
					b, err := gabi.NewCredentialBuilder(k.PK, ctx, secret, randBig(jr, 80), nil, blind)
					if err != nil {
						bad = true
						break
					}
					builders = append(builders, b)
					continue
				}
				ms := []*big.Int{secret, bi(int64(1000 + jr.IntN(100))), bi(int64(30 + jr.IntN(40))), randBig(jr, 200)}
				var c *world.Cred
				var err error
				nonrev := strings.Contains(s, "n")
				if nonrev {
					rev, e2 := world.NewRev(k)
					if e2 != nil {
						panic(e2)
					}
					c, err = k.SignCredRev(ms, rev)
				} else {
					c, err = k.SignCred(ms)
				}
				if err != nil {
					panic(err)
				}
				var stm map[int][]*rangeproof.Statement
				if strings.Contains(s, "r") {
					st, _ := rangeproof.NewStatement(rangeproof.GreaterOrEqual, bi(18))
					stm = map[int][]*rangeproof.Statement{2: {st}}
					if strings.Contains(s, "3") {
						tbl := rangeproof.GenerateSquaresTable(200)
						stm[2] = append(stm[2], &rangeproof.Statement{Sign: 1, Factor: 1, Bound: bi(20), Splitter: tbl})
						st2, _ := rangeproof.NewStatement(rangeproof.LesserOrEqual, pow2(201))
						stm[3] = []*rangeproof.Statement{st2}
					}
				}
				dset := []int{1}
				if strings.Contains(s, "0") {
					dset = []int{0, 1}
				}
				b, err := c.C.CreateDisclosureProofBuilder(dset, stm, nonrev)
				if err != nil {
					bad = true
					break
				}
				builders = append(builders, b)
			}
			if bad {
				continue
			}
			list, err := builders.BuildProofList(ctx, nonce, false)
			if err != nil {
				continue
			}
			doc, err := json.Marshal(list)
			if err != nil {
				continue
			}
			var rt gabi.ProofList
			if json.Unmarshal(doc, &rt) != nil {
				continue
			}
			reject := strings.Contains(strings.Join(shape, "+"), "0")
			ok, pvc, _ := verifyList(rt, pks, ctx, nonce, false, nil)
			if reject {
				// kept whatever the verdict: the identity document goes through every entry point with class M1
				r.Eval("corpus-malformed", outcome(ok, pvc))
				out = append(out, &c08seedDoc{name: kn + ":" + strings.Join(shape, "+"), doc: doc, pks: pks, ctx: ctx, nonce: nonce, reject: true})
				continue
			}
			r.Eval("corpus", outcome(ok, nil))
			if ok {
				out = append(out, &c08seedDoc{name: kn + ":" + strings.Join(shape, "+"), doc: doc, pks: pks, ctx: ctx, nonce: nonce})
			}
		}
	}
	return out
}

func noRevKey(pk *gabikeys.PublicKey) *gabikeys.PublicKey {
	c := *pk
	c.G, c.H, c.ECDSA, c.ECDSAString = nil, nil, nil, ""
	return &c
}

type c08exec struct {
	r       *mon.Run
	scratch string
}

// run feeds one document to every entry point. class != "" means the document must be rejected.
func (x *c08exec) run(worker int, seed *c08seedDoc, m jmut) {
	r := x.r
	// documents derived from a consistent-but-malformed list must be refused by ProofList.Verify; their members are proper
	// proofs on their own entry points (a stand-alone ProofD may disclose attribute 0)
	listOnly := false
	if seed.reject && m.class == "" {
		m.class = "M1"
		listOnly = true
	}
	if x.scratch != "" {
		_ = os.WriteFile(filepath.Join(x.scratch, fmt.Sprintf("inflight-%d.json", worker)), m.doc, 0o644)
	}
	r.Distinct(string(m.doc))
	report := func(where string, pv any, stack string) {
		site := mon.PanicSite(stack)
		r.Violation("C08/panic@"+site, fmt.Sprintf("%s panicked on a decodable document: %v [%s] (seed %s, mutation %s)", where, pv, stack, seed.name, m.desc),
			map[string]any{"entry": where, "seed": seed.name, "mutation": m.desc, "document": json.RawMessage(safeRaw(m.doc)), "keys": keyNames(seed.pks), "context": dumpInt(seed.ctx), "nonce": dumpInt(seed.nonce)})
	}
	accepted := func(where string) {
		if m.class == "" {
			return
		}
		r.Violation("C08/malformed-accepted/"+m.class+"/"+strings.SplitN(m.desc, " ", 2)[0], fmt.Sprintf("%s accepts a malformed document of class %s (seed %s, mutation %s)", where, m.class, seed.name, m.desc),
			map[string]any{"entry": where, "class": m.class, "seed": seed.name, "mutation": m.desc, "document": json.RawMessage(safeRaw(m.doc)), "keys": keyNames(seed.pks), "context": dumpInt(seed.ctx), "nonce": dumpInt(seed.nonce)})
	}
	var pl gabi.ProofList
	var err error
	pv, stack := mon.Try(func() { err = json.Unmarshal(m.doc, &pl) })
	if pv != nil {
		r.Eval("decode", "panic")
		report("json.Unmarshal(ProofList)", pv, stack)
		return
	}
	// the same list inside an issuance commitment message
	icm := []byte(`{"n_2":"AQ==","combinedProofs":` + string(m.doc) + `}`)
	var msg gabi.IssueCommitmentMessage
	pv, stack = mon.Try(func() { _ = json.Unmarshal(icm, &msg) })
	if pv != nil {
		report("json.Unmarshal(IssueCommitmentMessage)", pv, stack)
	}
	if err != nil {
		r.Eval("decode", "reject")
		return
	}
	r.Eval("decode", "accept")
	fam := "verify"
	if m.class != "" {
		fam = "verify-" + m.class
	}
	keysFor := func(n int, strip bool) []*gabikeys.PublicKey {
		ks := make([]*gabikeys.PublicKey, n)
		for i := range ks {
			k := seed.pks[0]
			if i < len(seed.pks) {
				k = seed.pks[i]
			}
			if strip {
				k = noRevKey(k)
			}
			ks[i] = k
		}
		return ks
	}
	for _, strip := range []bool{false, true} {
		var fresh gabi.ProofList
		if json.Unmarshal(m.doc, &fresh) != nil {
			return
		}
		ok, pv, stack := verifyList(fresh, keysFor(len(fresh), strip), seed.ctx, seed.nonce, false, nil)
		r.Eval(fam, outcome(ok, pv))
		if pv != nil {
			report(fmt.Sprintf("ProofList.Verify(strip=%v)", strip), pv, stack)
		}
		if ok {
			accepted("ProofList.Verify")
			if strip && bytes.Contains(m.doc, []byte("nonrev_proof")) {
				r.Violation("C08/malformed-accepted/M3/nonrev-under-key-without-revocation", "list with a non-revocation proof accepted under a key without revocation parts ("+seed.name+", "+m.desc+")",
					map[string]any{"seed": seed.name, "mutation": m.desc, "document": json.RawMessage(safeRaw(m.doc))})
			}
		}
		// labelled verification
		if !strip && len(fresh) > 0 {
			var f2 gabi.ProofList
			_ = json.Unmarshal(m.doc, &f2)
			labels := make([]string, len(f2))
			_, pv, stack := verifyList(f2, keysFor(len(f2), false), seed.ctx, seed.nonce, true, labels)
			if pv != nil {
				report("ProofList.Verify(labels)", pv, stack)
			}
			// label lists of other lengths: empty but not nil (same as no labels), one short, one long (must be refused)
			for _, ll := range []int{0, len(fresh) - 1, len(fresh) + 1} {
				if ll < 0 {
					continue
				}
				var f3 gabi.ProofList
				_ = json.Unmarshal(m.doc, &f3)
				okl, pv, stack := verifyList(f3, keysFor(len(f3), false), seed.ctx, seed.nonce, false, make([]string, ll))
				r.Eval("verify-labels", outcome(okl, pv))
				if pv != nil {
					report(fmt.Sprintf("ProofList.Verify(%d labels for %d proofs)", ll, len(f3)), pv, stack)
				}
				// (an empty label list must be judged like none; documents with a non-revocation part are left out of that
				// comparison: the verdict on a proof with two candidate revocation responses depends on map order, known finding C11)
				if okl && (ll != 0 || (!ok && !bytes.Contains(m.doc, []byte("nonrev_proof")))) {
					r.Violation("C08/malformed-accepted/labels", fmt.Sprintf("ProofList.Verify accepts with %d labels for %d proofs (without labels: %v) (seed %s, mutation %s)", ll, len(f3), ok, seed.name, m.desc),
						map[string]any{"seed": seed.name, "mutation": m.desc, "document": json.RawMessage(safeRaw(m.doc)), "labels": ll})
				}
			}
		}
	}
	// object history: the decoded objects are verified under their own keys first (which fills whatever the proofs
	// memoise) and then again under keys without revocation parts, and under the keys in reverse order
	{
		var h gabi.ProofList
		if json.Unmarshal(m.doc, &h) == nil && len(h) > 0 {
			_, pv0, _ := verifyList(h, keysFor(len(h), false), seed.ctx, seed.nonce, false, nil)
			if pv0 == nil {
				ok, pv, stack := verifyList(h, keysFor(len(h), true), seed.ctx, seed.nonce, false, nil)
				r.Eval(fam+"/reused-objects", outcome(ok, pv))
				if pv != nil {
					report("ProofList.Verify(keys without revocation parts, objects verified before under their own keys)", pv, stack)
				}
				if ok && bytes.Contains(m.doc, []byte("nonrev_proof")) {
					r.Violation("C08/malformed-accepted/M3/nonrev-under-key-without-revocation", "list with a non-revocation proof accepted under a key without revocation parts after it was verified under its own key ("+seed.name+", "+m.desc+")",
						map[string]any{"seed": seed.name, "mutation": m.desc, "document": json.RawMessage(safeRaw(m.doc))})
				}
				rev := keysFor(len(h), false)
				for i, j := 0, len(rev)-1; i < j; i, j = i+1, j-1 {
					rev[i], rev[j] = rev[j], rev[i]
				}
				_, pv, stack = verifyList(h, rev, seed.ctx, seed.nonce, false, nil)
				if pv != nil {
					report("ProofList.Verify(keys reversed, objects verified before)", pv, stack)
				}
			}
		}
	}
	// members on their own entry points
	var members gabi.ProofList
	_ = json.Unmarshal(m.doc, &members)
	for i, p := range members {
		k := seed.pks[0]
		if i < len(seed.pks) {
			k = seed.pks[i]
		}
		switch q := p.(type) {
		case *gabi.ProofD:
			ok, pv, stack := verifyD(k, q, seed.ctx, seed.nonce, false)
			r.Eval("member", outcome(ok, pv))
			if pv != nil {
				report("ProofD.Verify", pv, stack)
			}
			if ok && len(members) == 1 && !listOnly {
				accepted("ProofD.Verify")
			}
		case *gabi.ProofU:
			var ok bool
			pv, stack := mon.Try(func() { ok = q.Verify(k, seed.ctx, seed.nonce) })
			r.Eval("member", outcome(ok, pv))
			if pv != nil {
				report("ProofU.Verify", pv, stack)
			}
			if ok && len(members) == 1 && !listOnly {
				accepted("ProofU.Verify")
			}
		}
	}
}

func safeRaw(doc []byte) []byte {
	if json.Valid(doc) {
		return doc
	}
	b, _ := json.Marshal(string(doc))
	return b
}

func runC08(r *mon.Run) {
	keyNames := []string{"toy256a"}
	if r.Thorough() {
		keyNames = []string{"toy256a", "toy512a", "fix1024a"}
	}
	jr := r.Rand("corpus")
	corpus := c08Corpus(r, jr, keyNames)
	r.Set("corpus_documents", len(corpus))
	scratch := filepath.Join(mon.Dir(), "replays", "C08", "inflight")
	_ = os.MkdirAll(scratch, 0o755)
	x := &c08exec{r: r, scratch: scratch}
	type task struct {
		seed *c08seedDoc
		m    jmut
	}
	var tasks []task
	minimalSeed := &c08seedDoc{name: "minimal", pks: []*gabikeys.PublicKey{world.Fixture(keyNames[0]).PK}, ctx: bi(1), nonce: bi(1)}
	for _, d := range minimalDocs {
		tasks = append(tasks, task{minimalSeed, jmut{"minimal " + d, "", []byte(d)}})
	}
	perSeedPairs := r.Pick(150, 3000)
	perSeedBytes := r.Pick(150, 3000)
	for _, sd := range corpus {
		root := decodeTree(sd.doc)
		rlen := len(sd.pks[0].R)
		tasks = append(tasks, task{sd, jmut{"identity", "", sd.doc}})
		singles := structuralMutations(root, rlen, sd.pks[0].N)
		singles = append(singles, crossMutations(root, rlen)...)
		for _, m := range singles {
			tasks = append(tasks, task{sd, m})
		}
		// seeded pairs: apply a second structural mutation on top of a first
		for k := 0; k < perSeedPairs && len(singles) > 0; k++ {
			first := singles[jr.IntN(len(singles))]
			if !json.Valid(first.doc) {
				continue
			}
			second := structuralMutations(decodeTree(first.doc), rlen, sd.pks[0].N)
			if len(second) == 0 {
				continue
			}
			m2 := second[jr.IntN(len(second))]
			cls := first.class
			if cls == "" {
				cls = ""
			}
			tasks = append(tasks, task{sd, jmut{first.desc + " ; " + m2.desc, "", m2.doc}})
		}
		// byte-level mutations
		for k := 0; k < perSeedBytes; k++ {
			b := append([]byte{}, sd.doc...)
			switch jr.IntN(4) {
			case 0:
				b[jr.IntN(len(b))] ^= 1 << uint(jr.IntN(8))
			case 1:
				i, j := jr.IntN(len(b)), jr.IntN(len(b))
				if i > j {
					i, j = j, i
				}
				b = append(b[:i], b[j:]...)
			case 2:
				i := jr.IntN(len(b))
				b = append(append(append([]byte{}, b[:i]...), b[jr.IntN(len(b)):]...), b[i:]...)
			case 3:
				i := jr.IntN(len(b))
				const alphabet = "0123456789-\"{}[],:an"
				b[i] = alphabet[jr.IntN(len(alphabet))]
			}
			tasks = append(tasks, task{sd, jmut{fmt.Sprintf("bytes #%d", k), "", b}})
		}
	}
	// number lengths: every byte length 1..maxLen in some number position of a valid document (the decoders' buffer sizes and
	// the verifier's size checks sit at particular lengths that structural mutation never produces)
	maxLen := r.Pick(700, 1100)
	for di, sd := range corpus {
		if !r.Thorough() && di >= 3 {
			break
		}
		root := decodeTree(sd.doc)
		var leaves []jpath
		walk(root, nil, func(p jpath, v any) {
			if sv, ok := v.(string); ok && len(p) > 0 {
				if _, e := base64.StdEncoding.DecodeString(sv); e == nil && len(sv) >= 4 {
					leaves = append(leaves, append(jpath{}, p...))
				}
			}
		})
		if len(leaves) == 0 {
			continue
		}
		for L := 1; L <= maxLen; L++ {
			p := leaves[(L*31+di)%len(leaves)]
			b := make([]byte, L)
			for i := range b {
				b[i] = byte(jr.IntN(256))
			}
			if L%16 != 0 { // every 16th keeps a possibly-zero leading byte
				b[0] |= 1
			}
			enc := base64.StdEncoding.EncodeToString(b)
			tasks = append(tasks, task{sd, jmut{fmt.Sprintf("length %s -> %d random bytes", p.String(), L), "", marshalTree(setAt(root, p, enc, false))}})
			if L%3 == 0 {
				raw := base64.RawStdEncoding.EncodeToString(b)
				tasks = append(tasks, task{sd, jmut{fmt.Sprintf("length %s -> %d random bytes, unpadded", p.String(), L), "", marshalTree(setAt(root, p, raw, false))}})
			}
		}
	}
	c08NumberDecoder(r, jr)
	r.Set("documents_generated", len(tasks))
	workers := runtime.NumCPU()
	next := make(chan int, len(tasks))
	for i := range tasks {
		next <- i
	}
	close(next)
	done := make(chan struct{})
	for w := 0; w < workers; w++ {
		go func(w int) {
			for i := range next {
				x.run(w, tasks[i].seed, tasks[i].m)
			}
			done <- struct{}{}
		}(w)
	}
	for w := 0; w < workers; w++ {
		<-done
	}
	_ = os.RemoveAll(scratch)
	if r.Thorough() {
		c08GoFuzz(r, 3000000)
	}
	for i := 0; i < 6 && i < len(tasks); i++ {
		t := tasks[(i*7919)%len(tasks)]
		r.Sample(map[string]any{"seed": t.seed.name, "mutation": t.m.desc, "class": t.m.class, "bytes": len(t.m.doc)})
	}
	r.FloorAccept("corpus", 5)
	r.FloorFam("verify", 2000)
	r.FloorFam("verify-M1", 50)
	r.FloorFam("verify-M2", 50)
	r.FloorFam("verify-M3", 20)
	r.FloorFam("number-decoder", 5000)
}

// c08NumberDecoder: the integer decoder on its own, for every byte length and the padding forms a sender may use.
func c08NumberDecoder(r *mon.Run, jr *rand.Rand) {
	for L := 0; L <= 1400; L++ {
		b := make([]byte, L)
		for i := range b {
			b[i] = byte(jr.IntN(256))
		}
		forms := []string{base64.StdEncoding.EncodeToString(b), base64.RawStdEncoding.EncodeToString(b), base64.URLEncoding.EncodeToString(b),
			base64.StdEncoding.EncodeToString(b) + "=", strings.TrimSuffix(base64.StdEncoding.EncodeToString(b), "=")}
		for fi, f := range forms {
			doc, _ := json.Marshal(f)
			var v big.Int
			var err error
			pv, stack := mon.Try(func() { err = json.Unmarshal(doc, &v) })
			r.Distinct("number-decoder", L, fi)
			switch {
			case pv != nil:
				r.Eval("number-decoder", "panic")
				r.Violation("C08/panic@"+mon.PanicSite(stack), fmt.Sprintf("decoding a number of %d bytes (form %d) panicked: %v [%s]", L, fi, pv, stack),
					map[string]any{"entry": "json.Unmarshal(big.Int)", "document": json.RawMessage(doc)})
			case err != nil:
				r.Eval("number-decoder", "reject")
			default:
				r.Eval("number-decoder", "accept")
			}
		}
	}
}

// replayC08 re-runs the deciding call of a recorded case.
func replayC08(r *mon.Run, path string) error {
	b, err := os.ReadFile(path)
	if err != nil {
		return err
	}
	var rec struct {
		Case struct {
			Document json.RawMessage `json:"document"`
			Keys     []string        `json:"keys"`
			Context  string          `json:"context"`
			Nonce    string          `json:"nonce"`
			Class    string          `json:"class"`
		} `json:"case"`
	}
	if err := json.Unmarshal(b, &rec); err != nil {
		return err
	}
	var pks []*gabikeys.PublicKey
	for _, k := range rec.Case.Keys {
		pks = append(pks, world.Fixture(k).PK)
	}
	if len(pks) == 0 {
		pks = []*gabikeys.PublicKey{world.Fixture("toy256a").PK}
	}
	ctx, _ := new(big.Int).SetString(rec.Case.Context, 10)
	nonce, _ := new(big.Int).SetString(rec.Case.Nonce, 10)
	if ctx == nil {
		ctx = bi(1)
	}
	if nonce == nil {
		nonce = bi(1)
	}
	seed := &c08seedDoc{name: "replay", pks: pks, ctx: ctx, nonce: nonce}
	x := &c08exec{r: r}
	x.run(0, seed, jmut{"replay", rec.Case.Class, []byte(rec.Case.Document)})
	if r.ViolationCount() > 0 {
		return fmt.Errorf("recorded case still violates C08")
	}
	return nil
}

// c08GoFuzz runs Go's coverage-guided fuzzer on the decode+verify entry points with an execution-count budget.
func c08GoFuzz(r *mon.Run, execs int) {
	goBin := os.Getenv("GO")
	if goBin == "" {
		goBin = "go"
	}
	dir := filepath.Join(mon.Dir(), "harness")
	args := []string{"test"}
	if mf := os.Getenv("VERIF_MODFLAG"); mf != "" {
		args = append(args, mf)
	}
	args = append(args, "-tags", "verif", "-run=^$", "-fuzz=FuzzProofList", fmt.Sprintf("-fuzztime=%dx", execs), "./fuzz")
	cmd := exec.Command(goBin, args...)
	cmd.Dir = dir
	cmd.Env = os.Environ()
	out, err := cmd.CombinedOutput()
	text := string(out)
	execRe := regexp.MustCompile(`execs: (\d+)`)
	done := 0
	for _, m := range execRe.FindAllStringSubmatch(text, -1) {
		fmt.Sscan(m[1], &done)
	}
	r.Set("go_fuzz_executions", done)
	if m := regexp.MustCompile(`new interesting: \d+ \(total: (\d+)\)`).FindAllStringSubmatch(text, -1); len(m) > 0 {
		r.Set("go_fuzz_corpus_entries", m[len(m)-1][1])
	}
	if err == nil {
		r.Eval("go-fuzz", "accept")
		return
	}
	if strings.Contains(text, "Failing input written to") || strings.Contains(text, "panic:") {
		input := ""
		if m := regexp.MustCompile(`Failing input written to (\S+)`).FindStringSubmatch(text); m != nil {
			b, _ := os.ReadFile(filepath.Join(dir, "fuzz", m[1]))
			input = string(b)
			_ = os.RemoveAll(filepath.Join(dir, "fuzz", "testdata"))
		}
		site := "unknown"
		if m := regexp.MustCompile(`(?m)^\s+(\S*/(?:repo|gabi[^/]*)/\S+\.go:\d+)`).FindStringSubmatch(text); m != nil {
			site = filepath.Base(m[1])
		}
		r.Eval("go-fuzz", "panic")
		r.Violation("C08/panic@fuzz:"+site, "the coverage-guided fuzzer found a document that makes a verification entry point panic", map[string]any{"fuzzer_output": tail(text, 5000), "failing_input_file": input})
		return
	}
	r.Inconclusive("go fuzz run failed to execute: " + tail(text, 400))
}
