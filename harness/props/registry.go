// Package props wires the workload and oracle of every property.
package props

import "verifharness/mon"

// Check describes one property check.
type Check struct {
	Level string // evidence level
	Rule  string // how cases are generated and what makes one distinct / non-trivial
	Run   func(r *mon.Run)
	// Replay re-executes a recorded failing case; optional.
	Replay func(r *mon.Run, path string) error
}

// Registry maps property ids to checks.
var Registry = map[string]*Check{}
