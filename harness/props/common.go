package props

import (
	"errors"
	crand "crypto/rand"
	"encoding/json"
	"fmt"
	"github.com/privacybydesign/gabi/verifhooks"
	"io"
	"math/rand/v2"
	"sort"
	"sync"
	"time"

	"github.com/privacybydesign/gabi"
	"github.com/privacybydesign/gabi/big"
	"github.com/privacybydesign/gabi/gabikeys"
	"github.com/privacybydesign/gabi/rangeproof"
	"github.com/privacybydesign/gabi/revocation"

	"verifharness/mon"
	"verifharness/refimpl"
	"verifharness/world"
)

var (
	bigOne = big.NewInt(1)
)

func bi(x int64) *big.Int { return big.NewInt(x) }

func timeUnix(s int64) time.Time { return time.Unix(s, 0) }

func pow2(n uint) *big.Int { return new(big.Int).Lsh(bigOne, n) }

func cp(x *big.Int) *big.Int {
	if x == nil {
		return nil
	}
	return new(big.Int).Set(x)
}

func add(a, b *big.Int) *big.Int { return new(big.Int).Add(a, b) }
func sub(a, b *big.Int) *big.Int { return new(big.Int).Sub(a, b) }
func mul(a, b *big.Int) *big.Int { return new(big.Int).Mul(a, b) }

// randBig returns a seeded (not cryptographic) value of exactly up to bits bits.
func randBig(rng *rand.Rand, bits int) *big.Int {
	if bits <= 0 {
		return bi(0)
	}
	b := make([]byte, (bits+7)/8)
	for i := range b {
		b[i] = byte(rng.Uint32())
	}
	v := new(big.Int).SetBytes(b)
	return v.Rsh(v, uint(len(b)*8-bits))
}

// attrValue returns attribute values by profile id.
func attrValue(rng *rand.Rand, profile int, lm uint) *big.Int {
	switch profile % 9 {
	case 0:
		return bi(0)
	case 1:
		return bi(1)
	case 2:
		return sub(pow2(lm), bigOne)
	case 3:
		return pow2(lm)
	case 4:
		return add(pow2(lm), bigOne)
	case 5:
		return add(pow2(300), randBig(rng, 200))
	case 6:
		return new(big.Int).SetBytes([]byte(fmt.Sprintf("attr-%d", rng.IntN(100000))))
	case 7:
		return randBig(rng, 2000)
	default:
		return randBig(rng, int(lm)-rng.IntN(40))
	}
}

// freshNonces returns a context and nonce from the seeded generator.
func freshNonces(rng *rand.Rand) (*big.Int, *big.Int) {
	return randBig(rng, 256), randBig(rng, 80)
}

// subsets enumerates all subsets of {1..k} as sorted index slices.
func subsets(k int) [][]int {
	var out [][]int
	for mask := 0; mask < 1<<k; mask++ {
		var s []int
		for i := 0; i < k; i++ {
			if mask&(1<<i) != 0 {
				s = append(s, i+1)
			}
		}
		out = append(out, s)
	}
	return out
}

func cloneMap(m map[int]*big.Int) map[int]*big.Int {
	if m == nil {
		return nil
	}
	out := make(map[int]*big.Int, len(m))
	for k, v := range m {
		out[k] = cp(v)
	}
	return out
}

func cloneInts(s []*big.Int) []*big.Int {
	if s == nil {
		return nil
	}
	out := make([]*big.Int, len(s))
	for i, v := range s {
		out[i] = cp(v)
	}
	return out
}

func cloneRange(p *rangeproof.Proof) *rangeproof.Proof {
	if p == nil {
		return nil
	}
	return &rangeproof.Proof{
		Cs: cloneInts(p.Cs), DResponses: cloneInts(p.DResponses), VResponses: cloneInts(p.VResponses),
		V5Response: cp(p.V5Response), MResponse: cp(p.MResponse), Ld: p.Ld, Sign: p.Sign, A: p.A, K: cp(p.K),
	}
}

func cloneSAcc(s *revocation.SignedAccumulator) *revocation.SignedAccumulator {
	if s == nil {
		return nil
	}
	// as received: decoded cache empty
	return &revocation.SignedAccumulator{Data: append([]byte{}, s.Data...), PKCounter: s.PKCounter}
}

func cloneNonrev(p *revocation.Proof) *revocation.Proof {
	if p == nil {
		return nil
	}
	q := &revocation.Proof{Cr: cp(p.Cr), Cu: cp(p.Cu), SignedAccumulator: cloneSAcc(p.SignedAccumulator), Responses: map[string]*big.Int{}}
	for k, v := range p.Responses {
		// "alpha" included: honest provers do not send it, but the map travels as it is and an adversary may
		q.Responses[k] = cp(v)
	}
	return q
}

// cloneD deep-copies a ProofD in its as-received form (caches and non-transmitted fields dropped).
func cloneD(d *gabi.ProofD) *gabi.ProofD {
	q := &gabi.ProofD{C: cp(d.C), A: cp(d.A), EResponse: cp(d.EResponse), VResponse: cp(d.VResponse),
		AResponses: cloneMap(d.AResponses), ADisclosed: cloneMap(d.ADisclosed), NonRevocationProof: cloneNonrev(d.NonRevocationProof)}
	if d.RangeProofs != nil {
		q.RangeProofs = map[int][]*rangeproof.Proof{}
		for i, l := range d.RangeProofs {
			for _, p := range l {
				q.RangeProofs[i] = append(q.RangeProofs[i], cloneRange(p))
			}
		}
	}
	return q
}

func cloneU(p *gabi.ProofU) *gabi.ProofU {
	return &gabi.ProofU{U: cp(p.U), C: cp(p.C), VPrimeResponse: cp(p.VPrimeResponse), SResponse: cp(p.SResponse), MUserResponses: cloneMap(p.MUserResponses)}
}

func cloneProof(p gabi.Proof) gabi.Proof {
	switch x := p.(type) {
	case *gabi.ProofD:
		return cloneD(x)
	case *gabi.ProofU:
		return cloneU(x)
	}
	return p
}

func cloneList(l gabi.ProofList) gabi.ProofList {
	out := make(gabi.ProofList, len(l))
	for i, p := range l {
		out[i] = cloneProof(p)
	}
	return out
}

// dumpInt renders an integer for replay files (decimal, also negative).
func dumpInt(x *big.Int) string {
	if x == nil {
		return "nil"
	}
	return x.String()
}

func dumpMap(m map[int]*big.Int) map[string]string {
	out := map[string]string{}
	for k, v := range m {
		out[fmt.Sprint(k)] = dumpInt(v)
	}
	return out
}

func dumpInts(s []*big.Int) []string {
	out := make([]string, len(s))
	for i, v := range s {
		out[i] = dumpInt(v)
	}
	return out
}

// dumpD renders a ProofD with decimal integers (JSON marshalling refuses negatives).
func dumpD(d *gabi.ProofD) map[string]any {
	m := map[string]any{"c": dumpInt(d.C), "A": dumpInt(d.A), "e_response": dumpInt(d.EResponse), "v_response": dumpInt(d.VResponse),
		"a_responses": dumpMap(d.AResponses), "a_disclosed": dumpMap(d.ADisclosed)}
	if d.NonRevocationProof != nil {
		nr := map[string]any{"C_r": dumpInt(d.NonRevocationProof.Cr), "C_u": dumpInt(d.NonRevocationProof.Cu)}
		rs := map[string]string{}
		for k, v := range d.NonRevocationProof.Responses {
			rs[k] = dumpInt(v)
		}
		nr["responses"] = rs
		if d.NonRevocationProof.SignedAccumulator != nil {
			nr["sacc_data"] = d.NonRevocationProof.SignedAccumulator.Data
			nr["sacc_pk"] = d.NonRevocationProof.SignedAccumulator.PKCounter
		}
		m["nonrev_proof"] = nr
	}
	if d.RangeProofs != nil {
		rp := map[string]any{}
		for i, l := range d.RangeProofs {
			var arr []any
			for _, p := range l {
				if p == nil {
					arr = append(arr, nil)
					continue
				}
				arr = append(arr, map[string]any{"Cs": dumpInts(p.Cs), "ds": dumpInts(p.DResponses), "vs": dumpInts(p.VResponses),
					"v5": dumpInt(p.V5Response), "l_d": p.Ld, "sign": p.Sign, "a": p.A, "k": dumpInt(p.K)})
			}
			rp[fmt.Sprint(i)] = arr
		}
		m["rangeproofs"] = rp
	}
	return m
}

func dumpU(p *gabi.ProofU) map[string]any {
	return map[string]any{"U": dumpInt(p.U), "c": dumpInt(p.C), "v_prime_response": dumpInt(p.VPrimeResponse),
		"s_response": dumpInt(p.SResponse), "m_user_responses": dumpMap(p.MUserResponses)}
}

func dumpList(l gabi.ProofList) []any {
	var out []any
	for _, p := range l {
		switch x := p.(type) {
		case *gabi.ProofD:
			out = append(out, dumpD(x))
		case *gabi.ProofU:
			out = append(out, dumpU(x))
		default:
			out = append(out, fmt.Sprintf("%T", p))
		}
	}
	return out
}

func dumpCred(c *world.Cred) map[string]any {
	return map[string]any{"key": c.Key.Name, "ledger": dumpInts(c.Ledger),
		"sig": map[string]string{"A": dumpInt(c.C.Signature.A), "e": dumpInt(c.C.Signature.E), "v": dumpInt(c.C.Signature.V)}}
}

// verifyD calls ProofD.Verify under recover.
func verifyD(pk *gabikeys.PublicKey, d *gabi.ProofD, ctx, nonce *big.Int, issig bool) (ok bool, pv any, stack string) {
	pv, stack = mon.Try(func() { ok = d.Verify(pk, ctx, nonce, issig) })
	return
}

// verifyList calls ProofList.Verify under recover.
func verifyList(l gabi.ProofList, pks []*gabikeys.PublicKey, ctx, nonce *big.Int, issig bool, kss []string) (ok bool, pv any, stack string) {
	pv, stack = mon.Try(func() { ok = l.Verify(pks, ctx, nonce, issig, kss) })
	return
}

func outcome(ok bool, pv any) string {
	if pv != nil {
		return "panic"
	}
	if ok {
		return "accept"
	}
	return "reject"
}

func sortedKeys(m map[int]*big.Int) []int {
	ks := make([]int, 0, len(m))
	for k := range m {
		ks = append(ks, k)
	}
	sort.Ints(ks)
	return ks
}

// jsonRoundTripList marshals and re-reads a proof list.
func jsonRoundTripList(l gabi.ProofList) (gabi.ProofList, error) {
	b, err := json.Marshal(l)
	if err != nil {
		return nil, err
	}
	var out gabi.ProofList
	if err := json.Unmarshal(b, &out); err != nil {
		return nil, err
	}
	return out, nil
}

// mkCred builds a credential with nAttr non-secret attributes using value profiles.
func mkCred(rng *rand.Rand, k *world.Key, nAttr int, profileBase int) *world.Cred {
	ms := []*big.Int{randBig(rng, 255)}
	for i := 0; i < nAttr; i++ {
		ms = append(ms, attrValue(rng, profileBase+i, k.PK.Params.Lm))
	}
	c, err := k.SignCred(ms)
	if err != nil {
		panic(err)
	}
	return c
}

// hiddenOf returns the honest hidden map (index -> signed exponent) for disclosure set D.
func hiddenOf(c *world.Cred, disclosed []int) (map[int]*big.Int, map[int]*big.Int) {
	dis := map[int]*big.Int{}
	for _, i := range disclosed {
		dis[i] = cp(c.Ledger[i])
	}
	hid := map[int]*big.Int{}
	for i := range c.Ledger {
		if _, ok := dis[i]; !ok {
			hid[i] = cp(c.NormLedger(i))
		}
	}
	return dis, hid
}

var _ = refimpl.Norm

func sortedStrKeys(m map[string]*big.Int) []string {
	ks := make([]string, 0, len(m))
	for k := range m {
		ks = append(ks, k)
	}
	sort.Strings(ks)
	return ks
}

func inInts(s []int, v int) bool {
	for _, x := range s {
		if x == v {
			return true
		}
	}
	return false
}

// faultReader passes the system randomness through, except that the target-th read (counted from 1) is answered with a
// constant byte pattern: the extreme draws (all ones / all zeros) that a signing run meets with negligible probability.
type faultReader struct {
	inner   io.Reader
	n       int
	target  int
	pattern byte
	fail    bool // the target-th read fails (no bytes, an error) instead of returning the pattern
	hit     bool
}

func (f *faultReader) Read(p []byte) (int, error) {
	f.n++
	if f.n == f.target {
		if f.fail {
			f.hit = true
			return 0, errors.New("injected: transient failure of the random source")
		}
		for i := range p {
			p[i] = f.pattern
		}
		f.hit = true
		return len(p), nil
	}
	return f.inner.Read(p)
}

var extremeMu sync.Mutex

// extremeDraws runs f once for every (read number 1..maxReads, pattern all-ones/all-zeros): during the call that one read of
// the process-wide crypto/rand.Reader is answered with the pattern. f receives a description and a function telling whether the
// faulted read was reached. Must not be used while other goroutines of the process need genuine randomness semantics decided
// by an oracle (callers run it in a single-threaded section).
// failedDraws runs f once for every read number 1..maxReads: during the call that one read of the process-wide
// crypto/rand.Reader fails with an error (a transient fault of the random source); all other reads are genuine. Same
// single-threaded restriction as extremeDraws.
func failedDraws(maxReads int, f func(desc string, hit func() bool)) {
	extremeMu.Lock()
	defer extremeMu.Unlock()
	verifhooks.FastRandomBigInt(pow2(64))
	orig := crand.Reader
	defer func() { crand.Reader = orig }()
	for target := 1; target <= maxReads; target++ {
		fr := &faultReader{inner: orig, target: target, fail: true}
		crand.Reader = fr
		f(fmt.Sprintf("random read #%d fails", target), func() bool { return fr.hit })
		crand.Reader = orig
	}
}

func extremeDraws(maxReads int, f func(desc string, hit func() bool)) {
	extremeMu.Lock()
	defer extremeMu.Unlock()
	// the library's fast generator keys itself from crypto/rand on first use: make that happen on genuine randomness
	verifhooks.FastRandomBigInt(pow2(64))
	orig := crand.Reader
	defer func() { crand.Reader = orig }()
	for target := 1; target <= maxReads; target++ {
		for _, pat := range []byte{0xFF, 0x00} {
			fr := &faultReader{inner: orig, target: target, pattern: pat}
			crand.Reader = fr
			f(fmt.Sprintf("random read #%d answered with 0x%02X", target, pat), func() bool { return fr.hit })
			crand.Reader = orig
		}
	}
}
