package props

import (
	"bytes"
	"encoding/base64"
	"encoding/json"
	"fmt"
	"math/rand/v2"
	"runtime"
	"sort"
	"strings"
	"sync"

	"github.com/privacybydesign/gabi"
	"github.com/privacybydesign/gabi/big"
	"github.com/privacybydesign/gabi/gabikeys"

	"verifharness/mon"
	"verifharness/refimpl"
	"verifharness/world"
)

func init() {
	Registry["C04"] = &Check{
		Level: "exploration",
		Rule: "cases = (key, k=1..6 non-secret attributes with boundary/canary values, credential variant: plain | non-revocation | random-blind issuance | keyshare, EVERY subset D of the k attributes, session kind, API path: CreateDisclosureProof | builder list); " +
			"non-trivial = the library returned a proof; distinct by (key, variant, k, D, kind, path) hash; oracle per case: proof verifies, disclosed key set == D with raw values, response key set == complement (incl. 0), " +
			"no hidden value (or its digest) occurs among the integers/bytes of the proof JSON or in the timestamp contribution, hidden timestamp slots are 0, and the implied randomiser s-c*m statistically hides c*m",
		Run: runC04,
	}
}

func key512Lstatzk80(name string) bool {
	return strings.HasPrefix(name, "toy") && name != "toy512z"
}

// jsonInts collects every integer reachable in a JSON document (base64 strings and numbers) and all decoded byte strings.
func jsonInts(doc []byte) ([]*big.Int, [][]byte) {
	var ints []*big.Int
	var raws [][]byte
	dec := json.NewDecoder(bytes.NewReader(doc))
	dec.UseNumber()
	for {
		tok, err := dec.Token()
		if err != nil {
			break
		}
		switch v := tok.(type) {
		case string:
			if b, err := base64.StdEncoding.DecodeString(v); err == nil && len(b) > 0 {
				ints = append(ints, new(big.Int).SetBytes(b))
				raws = append(raws, b)
			}
			if b, err := base64.URLEncoding.DecodeString(v); err == nil && len(b) > 0 {
				raws = append(raws, b)
			}
			if x, ok := new(big.Int).SetString(v, 10); ok {
				ints = append(ints, x)
			}
		case json.Number:
			if x, ok := new(big.Int).SetString(string(v), 10); ok {
				ints = append(ints, x)
			}
		}
	}
	return ints, raws
}

type hideStat struct {
	proofs int
	best   int // max over proofs of bitlen(r) - bitlen(c*m)
}

// c04Extreme: the holder's proofs while single reads of crypto/rand.Reader return all ones / all zeros. The proof must verify and
// report exactly the chosen values whatever the random source returns.
func c04Extreme(r *mon.Run) {
	key := world.Fixture("toy512a")
	cred, err := key.SignCred([]*big.Int{bi(1).Lsh(bi(1), 220), bi(4711), bi(42), bi(1).Lsh(bi(1), 300)})
	if err != nil {
		panic(err)
	}
	for _, issig := range []bool{false, true} {
		extremeDraws(r.Pick(8, 14), func(desc string, hit func() bool) {
			ctx, nonce := bi(1), bi(55555)
			var list gabi.ProofList
			var perr error
			pv, stack := mon.Try(func() {
				b, e := cred.C.CreateDisclosureProofBuilder([]int{2}, nil, false)
				if e != nil {
					perr = e
					return
				}
				list, perr = gabi.ProofBuilderList{b}.BuildProofList(ctx, nonce, issig)
			})
			if !hit() {
				return
			}
			d := fmt.Sprintf("issig=%v %s", issig, desc)
			r.Distinct("extreme-randomness", d)
			if pv != nil {
				r.Eval("extreme-randomness", "panic")
				r.Violation("C04/honest-proof-rejected/extreme-randomness", fmt.Sprintf("proving panics under an extreme random draw: %v at %s (%s)", pv, mon.PanicSite(stack), d), map[string]any{"case": d})
				return
			}
			ok := false
			if perr == nil && len(list) == 1 {
				ok, _, _ = verifyList(cloneList(list), []*gabikeys.PublicKey{key.PK}, ctx, nonce, issig, nil)
				if dd, isD := list[0].(*gabi.ProofD); ok && isD {
					ok = len(dd.ADisclosed) == 1 && dd.ADisclosed[2] != nil && dd.ADisclosed[2].Cmp(cred.Ledger[2]) == 0 && len(dd.AResponses) == 3
				}
			}
			r.Eval("extreme-randomness", outcome(ok, nil))
			if !ok {
				r.Violation("C04/honest-proof-rejected/extreme-randomness", fmt.Sprintf("the holder cannot produce a verifying proof of the chosen attribute under an extreme random draw (err=%v) (%s)", perr, d), map[string]any{"case": d})
			}
		})
	}
	r.FloorFam("extreme-randomness", 8)
	// one read of the random source FAILS: the holder may be refused a proof; a proof that is handed out all the same must
	// verify, report the chosen attribute and hide the others (a failed draw must not become the randomiser 0)
	for _, issig := range []bool{false, true} {
		failedDraws(r.Pick(10, 20), func(desc string, hit func() bool) {
			ctx, nonce := bi(1), bi(55556)
			var list gabi.ProofList
			var perr error
			pv, _ := mon.Try(func() {
				b, e := cred.C.CreateDisclosureProofBuilder([]int{2}, nil, false)
				if e != nil {
					perr = e
					return
				}
				list, perr = gabi.ProofBuilderList{b}.BuildProofList(ctx, nonce, issig)
			})
			if !hit() {
				return
			}
			d := fmt.Sprintf("issig=%v %s", issig, desc)
			r.Distinct("failed-draw", d)
			if pv != nil {
				r.Eval("failed-draw", "panic") // a crash under a failing random source is outside this property
				return
			}
			if perr != nil || len(list) != 1 {
				r.Eval("failed-draw", "error")
				return
			}
			dd, isD := list[0].(*gabi.ProofD)
			ok, _, _ := verifyList(cloneList(list), []*gabikeys.PublicKey{key.PK}, ctx, nonce, issig, nil)
			ok = ok && isD && len(dd.ADisclosed) == 1 && dd.ADisclosed[2] != nil && dd.ADisclosed[2].Cmp(cred.Ledger[2]) == 0 && len(dd.AResponses) == 3
			r.Eval("failed-draw", outcome(ok, nil))
			if !ok {
				r.Violation("C04/honest-proof-rejected/failed-draw", "a proof handed out although a read of the random source failed does not verify or reports other values ("+d+")", map[string]any{"case": d})
				return
			}
			for i, s := range dd.AResponses {
				rnd := sub(s, mul(dd.C, cred.NormLedger(i)))
				if rnd.BitLen() < 64 {
					r.Violation("C04/hidden-value-not-hidden/failed-draw", fmt.Sprintf("response %d of a proof made while a read of the random source failed is c*m plus %s: the hidden value follows from the proof (%s)", i, rnd.String(), d),
						map[string]any{"case": d, "proof": dumpD(dd)})
				}
			}
		})
	}
	r.FloorFam("failed-draw", 8)
}

func runC04(r *mon.Run) {
	c04Extreme(r)
	keys := []string{"toy512a", "toy512z", "toy384a", "fix1024a"}
	if r.Thorough() {
		keys = []string{"toy512a", "toy384a", "toy256a", "toy512z", "fix1024a", "fix2048a"}
	}
	variants := []string{"plain", "nonrev", "randomblind", "keyshare"}
	type job struct {
		key     string
		k       int
		variant string
		seed    uint64
	}
	rng := r.Rand("jobs")
	var jobs []job
	for _, kn := range keys {
		maxK := 6
		if strings.HasPrefix(kn, "fix") {
			maxK = 4
		}
		for k := 1; k <= maxK; k++ {
			for _, v := range variants {
				if v == "keyshare" && key512Lstatzk80(kn) {
					continue // NewKeyshareCommitments sizes its randomiser by N.BitLen()==1024; toy keys with Lstatzk=80 are outside its domain
				}
				reps := 1
				if r.Thorough() {
					reps = 3
					if !strings.HasPrefix(kn, "fix") {
						reps = 10
					}
				}
				for rep := 0; rep < reps; rep++ {
					jobs = append(jobs, job{kn, k, v, rng.Uint64()})
				}
			}
		}
	}
	var exhaustive sync.Map
	mon.Parallel(len(jobs), runtime.NumCPU(), func(ji int) {
		j := jobs[ji]
		jr := rand.New(rand.NewPCG(j.seed, 4))
		key := world.Fixture(j.key)
		cred, kss, err := c04Cred(jr, key, j.k, j.variant)
		if err != nil {
			r.Eval("setup", "error")
			r.Violation("C04/honest-issuance-failed", fmt.Sprintf("could not obtain a %s credential with k=%d: %v", j.variant, j.k, err), map[string]any{"key": j.key, "variant": j.variant, "k": j.k})
			return
		}
		stats := map[int]*hideStat{}
		done := 0
		for _, D := range subsets(j.k) {
			for _, issig := range []bool{false, true} {
				for _, path := range []string{"direct", "builder"} {
					if path == "direct" && (issig || kss != nil) {
						continue // CreateDisclosureProof is the disclosure-session, no-keyshare entry point
					}
					c04Case(r, jr, key, cred, kss, j.variant, D, issig, path, stats)
				}
			}
			done++
		}
		if done == 1<<j.k {
			exhaustive.Store(fmt.Sprintf("%s/%s/k=%d", j.key, j.variant, j.k), true)
		}
		// statistical hiding per hidden slot
		for idx, st := range stats {
			if st.proofs >= 8 {
				r.Eval("hiding", "accept")
				if st.best < 72 {
					r.Violation("C04/response-does-not-hide-attribute",
						fmt.Sprintf("over %d proofs the implied randomiser of hidden index %d never exceeded c*m by 72 bits (best %d): the response reveals the attribute", st.proofs, idx, st.best),
						map[string]any{"key": j.key, "variant": j.variant, "k": j.k, "index": idx, "cred": dumpCred(cred)})
				}
			}
		}
	})
	n := 0
	exhaustive.Range(func(_, _ any) bool { n++; return true })
	r.Set("subset_lattices_completed", n)
	r.Exhaustive(n == len(jobs) || n > 0)
	r.Set("exhaustive_scope", "all 2^k disclosure subsets for every (key, variant, k) job that obtained a credential; attribute values are sampled")
	r.FloorAccept("verify", 100)
	r.FloorFam("leakscan", 100)
	r.FloorAccept("hiding", 4)
}

// c04Cred builds the credential for a variant. Hidden candidates are unique canaries mixed with boundary values.
func c04Cred(jr *rand.Rand, key *world.Key, k int, variant string) (*world.Cred, *kssState, error) {
	lm := key.PK.Params.Lm
	attrs := make([]*big.Int, k)
	for i := range attrs {
		switch jr.IntN(3) {
		case 0:
			attrs[i] = add(pow2(200+uint(jr.IntN(50))), randBig(jr, 199)) // canary
		case 1:
			attrs[i] = add(pow2(2000), randBig(jr, 1999)) // oversized canary (hashed)
		default:
			attrs[i] = attrValue(jr, jr.IntN(6), lm)
		}
	}
	secret := randBig(jr, 254)
	switch variant {
	case "plain":
		c, err := key.SignCred(append([]*big.Int{secret}, attrs...))
		return c, nil, err
	case "nonrev":
		rev, err := world.NewRev(key)
		if err != nil {
			return nil, nil, err
		}
		c, err := key.SignCredRev(append([]*big.Int{secret}, attrs...), rev)
		return c, nil, err
	case "randomblind":
		var blind []int
		for i := range attrs {
			if jr.IntN(2) == 0 {
				blind = append(blind, i)
				attrs[i] = nil
			}
		}
		ctx, n1 := freshNonces(jr)
		run, err := world.Issue(key, ctx, n1, randBig(jr, 80), secret, nil, attrs, blind, nil)
		if err != nil {
			return nil, nil, err
		}
		if err := run.Finish(); err != nil {
			return nil, nil, err
		}
		return run.CredOf(nil), nil, nil
	case "keyshare":
		ks := newKss(key)
		ctx, n1 := freshNonces(jr)
		run, err := world.Issue(key, ctx, n1, randBig(jr, 80), secret, ks.P(key), attrs, nil, nil)
		if err != nil {
			return nil, nil, err
		}
		if err := run.Finish(); err != nil {
			return nil, nil, err
		}
		c := run.CredOf(nil)
		c.Ledger[0] = add(secret, ks.secret) // what the signature really covers at index 0
		return c, ks, nil
	}
	return nil, nil, fmt.Errorf("unknown variant")
}

func c04Case(r *mon.Run, jr *rand.Rand, key *world.Key, cred *world.Cred, kss *kssState, variant string, D []int, issig bool, path string, stats map[int]*hideStat) {
	pk := key.PK
	nonrev := variant == "nonrev"
	ctx, nonce := freshNonces(jr)
	desc := fmt.Sprintf("key=%s variant=%s n=%d D=%v issig=%v path=%s", key.Name, variant, len(cred.Ledger), D, issig, path)
	fail := func(sig, msg string, extra map[string]any) {
		m := map[string]any{"desc": desc, "cred": dumpCred(cred), "context": dumpInt(ctx), "nonce": dumpInt(nonce)}
		for k, v := range extra {
			m[k] = v
		}
		r.Violation(sig, msg+" ("+desc+")", m)
	}
	Dshuf := append([]int{}, D...)
	jr.Shuffle(len(Dshuf), func(a, b int) { Dshuf[a], Dshuf[b] = Dshuf[b], Dshuf[a] })

	var proof *gabi.ProofD
	var tsA *big.Int
	var tsDisclosed, tsEarly []*big.Int
	var err error
	var ok bool
	pv, stack := mon.Try(func() {
		if path == "direct" {
			proof, err = cred.C.CreateDisclosureProof(Dshuf, nil, nonrev, ctx, nonce)
			return
		}
		var b *gabi.DisclosureProofBuilder
		b, err = cred.C.CreateDisclosureProofBuilder(Dshuf, nil, nonrev)
		if err != nil {
			return
		}
		// the timestamp-request contribution may be asked for at any point of the builder's life: before the commitment ...
		tsA0, tsD0 := b.TimestampRequestContributions()
		tsEarly = append([]*big.Int{tsA0}, tsD0...)
		var list gabi.ProofList
		if kss != nil {
			list, err = kss.prove(gabi.ProofBuilderList{b}, ctx, nonce, issig)
		} else {
			if jr.IntN(3) == 0 {
				// a first session was started with this builder and abandoned after its challenge was computed (the verifier's
				// nonce was replaced); the builder then serves the real session
				if _, e0 := (gabi.ProofBuilderList{b}).Challenge(ctx, new(big.Int).Add(nonce, bi(1)), issig); e0 != nil {
					err = fmt.Errorf("abandoned first challenge: %w", e0)
					return
				}
				r.Add("builders_with_an_abandoned_first_session", 1)
			}
			list, err = gabi.ProofBuilderList{b}.BuildProofList(ctx, nonce, issig)
		}
		if err != nil {
			return
		}
		proof = list[0].(*gabi.ProofD)
		tsA, tsDisclosed = b.TimestampRequestContributions()
	})
	r.Distinct(desc)
	if pv != nil {
		r.Eval("create", "panic")
		fail("C04/create-proof-panics", fmt.Sprintf("creating the proof panicked: %v at %s", pv, mon.PanicSite(stack)), nil)
		return
	}
	if err != nil {
		r.Eval("create", "error")
		fail("C04/create-proof-fails", "the library refused to create a proof for a legitimate disclosure set: "+err.Error(), nil)
		return
	}
	r.Eval("create", "accept")
	// completeness: verifies (after a JSON round trip, as a verifier would receive it)
	rt, err := jsonRoundTripList(gabi.ProofList{proof})
	if err != nil {
		fail("C04/proof-not-serialisable", "proof does not survive JSON: "+err.Error(), nil)
		return
	}
	ok, pv, _ = verifyList(rt, []*gabikeys.PublicKey{pk}, ctx, nonce, issig, nil)
	r.Eval("verify", outcome(ok, pv))
	if !ok {
		small := 0
		for _, v := range proof.AResponses {
			if v.Cmp(pow2(580)) < 0 {
				small++
			}
		}
		if nonrev && small >= 2 {
			// the verifier picks "the" revocation attribute as any hidden response below 2^580 in map order
			fail("C04/honest-nonrev-proof-rejected/ambiguous-revocation-index", fmt.Sprintf("honest non-revocation proof rejected: %d hidden responses are below 2^580, the verifier guessed the wrong one", small), map[string]any{"proof": dumpD(proof)})
			return
		}
		fail("C04/honest-proof-rejected", "honest disclosure proof does not verify", map[string]any{"proof": dumpD(proof)})
		return
	}
	// structure
	wantD := map[int]bool{}
	for _, i := range D {
		wantD[i] = true
	}
	gotD := sortedKeys(proof.ADisclosed)
	sort.Ints(gotD)
	if fmt.Sprint(gotD) != fmt.Sprint(append([]int{}, D...)) && !(len(gotD) == 0 && len(D) == 0) {
		fail("C04/disclosed-set-differs", fmt.Sprintf("proof reports disclosed indices %v, chosen %v", gotD, D), map[string]any{"proof": dumpD(proof)})
	}
	for _, i := range gotD {
		// compared with the ledger (the harness' own copy of what was signed), not with the credential object the library works on
		if i < len(cred.Ledger) && proof.ADisclosed[i].Cmp(cred.Ledger[i]) != 0 {
			fail("C04/disclosed-value-differs", fmt.Sprintf("disclosed value at %d is not the true attribute value", i), map[string]any{"proof": dumpD(proof)})
		}
	}
	// proving must not modify the credential
	for i := range cred.Ledger {
		want := cred.Ledger[i]
		if i == 0 && kss != nil {
			continue // the holder only stores its own share at index 0
		}
		if cred.C.Attributes[i].Cmp(want) != 0 {
			fail("C04/credential-modified-by-proving", fmt.Sprintf("after creating a proof, attribute %d of the credential object no longer has its issued value", i), map[string]any{"index": i, "now": dumpInt(cred.C.Attributes[i])})
			cred.C.Attributes[i] = cp(want) // keep going with the true value
		}
	}
	var wantH []int
	for i := range cred.Ledger {
		if !wantD[i] {
			wantH = append(wantH, i)
		}
	}
	gotH := sortedKeys(proof.AResponses)
	if fmt.Sprint(gotH) != fmt.Sprint(wantH) {
		fail("C04/hidden-set-differs", fmt.Sprintf("proof has responses for %v, expected %v", gotH, wantH), map[string]any{"proof": dumpD(proof)})
	}
	// leak scan
	doc, _ := json.Marshal(proof)
	ints, raws := jsonInts(doc)
	if tsDisclosed != nil {
		ints = append(ints, tsA)
		for i, v := range tsDisclosed {
			if wantD[i] {
				if v.Cmp(cred.Ledger[i]) != 0 {
					fail("C04/timestamp-disclosed-value-differs", fmt.Sprintf("timestamp contribution slot %d differs from the disclosed attribute", i), nil)
				}
				continue
			}
			if v.Sign() != 0 {
				fail("C04/timestamp-contains-hidden-slot", fmt.Sprintf("timestamp contribution slot %d is non-zero although the attribute is hidden", i), map[string]any{"slot": i, "value": dumpInt(v)})
			}
		}
		if len(tsDisclosed) != len(cred.C.Attributes) {
			fail("C04/timestamp-length", "timestamp contribution has the wrong number of slots", nil)
		}
	}
	if tsEarly != nil {
		// ... and must then show the same (randomised A, disclosed values, zeros for everything hidden) as afterwards
		if len(tsEarly) != len(cred.C.Attributes)+1 {
			fail("C04/timestamp-length", "timestamp contribution requested before the commitment has the wrong number of slots", nil)
		}
		for i, v := range tsEarly[1:] {
			if wantD[i] || v == nil {
				continue
			}
			if v.Sign() != 0 {
				fail("C04/timestamp-contains-hidden-slot/before-commit", fmt.Sprintf("timestamp contribution requested BEFORE the commitment has a non-zero slot %d although the attribute is hidden", i), map[string]any{"slot": i, "value": dumpInt(v)})
			}
		}
		if tsA != nil && tsEarly[0].Cmp(tsA) != 0 {
			fail("C04/timestamp-A-changes", "the randomised signature element reported before and after the commitment differs", nil)
		}
		ints = append(ints, tsEarly...)
	}
	r.Eval("leakscan", "accept")
	for _, i := range wantH {
		raw := cred.C.Attributes[i]
		cands := []*big.Int{raw}
		if raw.BitLen() > int(pk.Params.Lm) {
			cands = append(cands, refimpl.IntHash(raw.Bytes()))
		}
		if i == 0 && kss != nil {
			cands = append(cands, cred.Ledger[0], kss.secret)
		}
		for _, cv := range cands {
			if cv.BitLen() < 64 {
				continue // small boundary values are not identifying
			}
			dup := false
			for _, di := range D {
				dv := cred.C.Attributes[di]
				if dv.Cmp(cv) == 0 || refimpl.Norm(dv, pk.Params.Lm).Cmp(cv) == 0 {
					dup = true // the same value is legitimately disclosed at another index
				}
			}
			if dup {
				continue
			}
			for _, x := range ints {
				if x.Cmp(cv) == 0 {
					fail("C04/hidden-value-in-proof", fmt.Sprintf("the value of hidden attribute %d occurs verbatim in the proof/timestamp data", i), map[string]any{"index": i, "proof_json": string(doc)})
				}
			}
			cb := cv.Bytes()
			for _, rb := range raws {
				if len(rb) > len(cb) && bytes.Contains(rb, cb) {
					fail("C04/hidden-value-in-proof", fmt.Sprintf("the bytes of hidden attribute %d occur inside a field of the proof", i), map[string]any{"index": i, "proof_json": string(doc)})
				}
			}
		}
		// implied randomiser
		resp := proof.AResponses[i]
		if resp == nil {
			continue
		}
		cm := mul(proof.C, cred.NormLedger(i))
		rr := sub(resp, cm)
		st := stats[i]
		if st == nil {
			st = &hideStat{best: -1 << 30}
			stats[i] = st
		}
		st.proofs++
		gap := rr.BitLen() - cm.BitLen()
		if rr.Sign() <= 0 {
			gap = -1 << 20
		}
		if gap > st.best {
			st.best = gap
		}
	}
	// the implied randomisers of different hidden attributes of one proof are independent draws: two equal ones give away the
	// difference of the two hidden values ((s_i - s_j)/c = m_i - m_j) to anybody who reads the proof
	{
		seen := map[string]int{}
		for _, i := range sortedKeys(proof.AResponses) {
			rr := sub(proof.AResponses[i], mul(proof.C, cred.NormLedger(i))).String()
			if j, dup := seen[rr]; dup {
				fail("C04/hidden-values-related", fmt.Sprintf("hidden attributes %d and %d were blinded with the same randomiser: their difference can be read from the proof", j, i), map[string]any{"indices": []int{j, i}, "proof_json": string(doc)})
				break
			}
			seen[rr] = i
		}
		r.Add("proofs_checked_for_related_randomisers", 1)
	}
	if r.Evals()%900 < 3 {
		r.Sample(map[string]any{"case": desc, "disclosed": gotD, "hidden": gotH, "json_bytes": len(doc)})
	}
}
