package props

import (
	crand "crypto/rand"
	"fmt"
	"math/rand/v2"
	"runtime"
	"strings"
	"sync"

	"github.com/privacybydesign/gabi"
	"github.com/privacybydesign/gabi/big"
	"github.com/privacybydesign/gabi/gabikeys"

	"verifharness/mon"
	"verifharness/refimpl"
	"verifharness/world"
)

func init() {
	Registry["C05"] = &Check{
		Level: "exploration",
		Rule: "cases = (key, message block of length 1..len(R) with boundary-sized entries) x (library signature | 10 chained randomisations | signature FORGED with the private key for a chosen exponent e: interval edges +-2, primes just inside/outside, small primes, " +
			"short/long primes, composites with small factors inside the interval, even numbers | single-component alteration of A, e, v, each m_i, block truncated/extended/permuted, KeyshareP added/removed/altered, other public key, the same modulus with another base / S / Z right after an honest verification under the genuine key); " +
			"non-trivial = the signature satisfies the signature equation or is a one-component alteration of one that does; distinct by (key, block shape, operator, e class) hash; " +
			"oracle = reference equivalence: CLSignature.Verify must equal inRange(e) && prime(e) && Z == A^e prod R_i^norm(m_i) S^v [KeyshareP] computed independently",
		Run: runC05,
	}
}

// forgeCL builds a signature satisfying the equation for a chosen e and v using the trapdoor.
func forgeCL(k *world.Key, ms []*big.Int, e, v, kssP *big.Int) *gabi.CLSignature {
	pk := k.PK
	d := new(big.Int).ModInverse(e, k.Ord)
	if d == nil {
		return nil
	}
	den := refimpl.PowSigned(pk.S, v, pk.N)
	for i, m := range ms {
		den.Mul(den, new(big.Int).Exp(pk.R[i], refimpl.Norm(m, pk.Params.Lm), pk.N)).Mod(den, pk.N)
	}
	if kssP != nil {
		den.Mul(den, kssP).Mod(den, pk.N)
	}
	inv := new(big.Int).ModInverse(den, pk.N)
	if inv == nil {
		return nil
	}
	q := new(big.Int).Mul(pk.Z, inv)
	q.Mod(q, pk.N)
	return &gabi.CLSignature{A: new(big.Int).Exp(q, d, pk.N), E: cp(e), V: cp(v), KeyshareP: cp(kssP)}
}

func nextPrime(x *big.Int) *big.Int {
	p := cp(x)
	if p.Bit(0) == 0 {
		p.Add(p, bigOne)
	}
	for !p.ProbablyPrime(30) {
		p.Add(p, bi(2))
	}
	return p
}

func prevPrime(x *big.Int) *big.Int {
	p := cp(x)
	if p.Bit(0) == 0 {
		p.Sub(p, bigOne)
	}
	for !p.ProbablyPrime(30) {
		p.Sub(p, bi(2))
	}
	return p
}

// c05ExtremeRandomness signs with single extreme random draws (single-threaded: crypto/rand.Reader is process-wide). Whatever
// the generator returns, a signature that comes out of SignMessageBlock must be valid: in particular the prime exponent
// drawn at the very top or bottom of its interval.
func c05ExtremeRandomness(r *mon.Run, keys []string) {
	orig := crand.Reader
	defer func() { crand.Reader = orig }()
	for _, kn := range keys {
		k := world.Fixture(kn)
		pk := k.PK
		ms := []*big.Int{bi(12345), bi(678)}
		if len(pk.R) < 2 {
			ms = ms[:1]
		}
		for target := 1; target <= 6; target++ {
			for pi, pat := range []byte{0xFF, 0x00, 0x01} {
				fr := &faultReader{inner: orig, target: target, pattern: pat, fail: pi == 2}
				crand.Reader = fr
				var sig *gabi.CLSignature
				var err error
				pv, stack := mon.Try(func() { sig, err = gabi.SignMessageBlock(k.SK, pk, ms) })
				crand.Reader = orig
				if !fr.hit {
					continue
				}
				desc := fmt.Sprintf("key=%s random read #%d answered with 0x%02X", kn, target, pat)
				if fr.fail {
					desc = fmt.Sprintf("key=%s random read #%d fails", kn, target)
				}
				r.Distinct("extreme-randomness", desc)
				if pv != nil {
					r.Eval("extreme-randomness", "panic")
					r.PanicSeen(mon.PanicSite(stack))
					continue
				}
				if err != nil || sig == nil {
					r.Eval("extreme-randomness", "error") // no signature produced: nothing to hold
					continue
				}
				ref := refimpl.CLValid(pk, sig, ms)
				var lib bool
				mon.Try(func() { lib = sig.Verify(pk, ms) })
				r.Eval("extreme-randomness", outcome(lib && ref, nil))
				if !ref || !lib {
					r.Violation("C05/issued-signature-invalid/extreme-randomness", fmt.Sprintf("SignMessageBlock returned a signature that is not valid (reference=%v library=%v; e in interval=%v) (%s)", ref, lib, refimpl.EInRange(pk, sig.E), desc),
						map[string]any{"case": desc, "sig": map[string]string{"A": dumpInt(sig.A), "e": dumpInt(sig.E), "v": dumpInt(sig.V)}})
				}
			}
		}
	}
	r.FloorFam("extreme-randomness", 6)
}

// c05Concurrent: one key, many goroutines signing and verifying blocks with oversized (hashed) messages at the same time. Signing
// and verifying are functions of their arguments; a valid signature must verify whatever else the process is doing.
func c05Concurrent(r *mon.Run) {
	k := world.Fixture("toy512a")
	pk := k.PK
	rng := r.Rand("concurrent")
	G := 2 * runtime.NumCPU()
	type item struct {
		ms  []*big.Int
		sig *gabi.CLSignature
	}
	items := make([]item, G)
	for i := range items {
		ms := []*big.Int{randBig(rng, 200), randBig(rng, 2000+rng.IntN(4000)), randBig(rng, 300+rng.IntN(3000))}
		sig, err := gabi.SignMessageBlock(k.SK, pk, ms)
		if err != nil || !refimpl.CLValid(pk, sig, ms) {
			r.Inconclusive("set-up of the concurrent section failed")
			return
		}
		items[i] = item{ms, sig}
	}
	rounds := r.Pick(40, 400)
	var wg sync.WaitGroup
	for g := 0; g < G; g++ {
		wg.Add(1)
		go func(g int) {
			defer wg.Done()
			for round := 0; round < rounds; round++ {
				it := items[(g+round)%G]
				var ok bool
				pv, stack := mon.Try(func() { ok = it.sig.Verify(pk, it.ms) })
				r.Eval("concurrent", outcome(ok, pv))
				if pv != nil || !ok {
					r.Violation("C05/valid-signature-rejected/concurrent", fmt.Sprintf("a valid signature over a block with oversized messages is rejected (panic=%v %s) while %d goroutines verify and sign", pv, mon.PanicSite(stack), G), map[string]any{"ms_bits": bitlens(it.ms)})
					return
				}
				if round%8 == 0 {
					var s2 *gabi.CLSignature
					var err error
					pv, stack := mon.Try(func() { s2, err = gabi.SignMessageBlock(k.SK, pk, it.ms) })
					good := pv == nil && err == nil && s2 != nil && refimpl.CLValid(pk, s2, it.ms)
					r.Eval("concurrent", outcome(good, pv))
					if !good {
						r.Violation("C05/issued-signature-invalid/concurrent", fmt.Sprintf("SignMessageBlock, called while %d goroutines sign and verify, fails or returns an invalid signature (panic=%v %s err=%v)", G, pv, mon.PanicSite(stack), err), map[string]any{"ms_bits": bitlens(it.ms)})
						return
					}
				}
			}
		}(g)
	}
	wg.Wait()
	r.FloorFam("concurrent", 500)
}

func runC05(r *mon.Run) {
	keys := []string{"toy512a", "toy256a", "fix1024a"}
	if r.Thorough() {
		keys = []string{"toy512a", "toy256a", "toy384a", "toy512b", "toy512z", "fix1024a", "fix1024b", "fix2048a"}
	}
	type job struct {
		key  string
		n    int
		seed uint64
	}
	rng := r.Rand("jobs")
	var jobs []job
	for _, kn := range keys {
		k := world.Fixture(kn)
		reps := r.Pick(1, 4)
		for rep := 0; rep < reps; rep++ {
			for n := 1; n <= len(k.PK.R); n++ {
				if strings.HasPrefix(kn, "fix") && !r.Thorough() && n%4 != 1 {
					continue
				}
				jobs = append(jobs, job{kn, n, rng.Uint64()})
			}
		}
	}
	c05ExtremeRandomness(r, keys)
	c05Concurrent(r)
	mon.Parallel(len(jobs), runtime.NumCPU(), func(ji int) {
		j := jobs[ji]
		c05Job(r, world.Fixture(j.key), j.n, rand.New(rand.NewPCG(j.seed, 5)))
	})
	r.FloorAccept("lib-signature", 10)
	r.FloorAccept("randomize", 50)
	r.FloorFam("forged", 200)
	r.FloorFam("alter", 200)
	r.Floor("forged signatures satisfying the equation with a bad exponent", 50, func() int64 { return r.Get("forged_equation_holds_bad_e") })
}

func c05Job(r *mon.Run, k *world.Key, n int, jr *rand.Rand) {
	pk := k.PK
	ms := make([]*big.Int, n)
	for i := range ms {
		ms[i] = attrValue(jr, jr.IntN(9), pk.Params.Lm)
	}
	shape := fmt.Sprintf("key=%s n=%d bits=%v", k.Name, n, bitlens(ms))
	var warmSig *gabi.CLSignature
	var warmMs []*big.Int
	check := func(family, desc string, sig *gabi.CLSignature, msgs []*big.Int, key *world.Key) (lib bool) {
		r.Distinct(k.Name, n, family, desc)
		ref := len(msgs) <= len(key.PK.R) && refimpl.CLValid(key.PK, sig, msgs)
		before := cloneInts(msgs)
		pv, stack := mon.Try(func() { lib = sig.Verify(key.PK, msgs) })
		for i := range msgs {
			if i < len(before) && msgs[i].Cmp(before[i]) != 0 {
				r.Violation("C05/message-block-modified-by-verify", fmt.Sprintf("CLSignature.Verify changed message %d of the caller's block (%s: %s)", i, family, desc), map[string]any{"shape": shape, "case": family + ": " + desc})
				msgs[i] = before[i]
			}
		}
		r.Eval(family, outcome(lib, pv))
		if pv != nil {
			r.PanicSeen(mon.PanicSite(stack))
			lib = false
		}
		// the same verdict must come out when the signature arrives in an object that held (and verified) another signature before,
		// and a randomised copy of an invalid signature must stay invalid
		if family == "forged" || family == "alter" {
			w := &gabi.CLSignature{A: cp(warmSig.A), E: cp(warmSig.E), V: cp(warmSig.V), KeyshareP: cp(warmSig.KeyshareP)}
			var first, second bool
			pvw, _ := mon.Try(func() {
				first = w.Verify(k.PK, warmMs)
				w.A, w.E, w.V, w.KeyshareP = cp(sig.A), cp(sig.E), cp(sig.V), cp(sig.KeyshareP)
				second = w.Verify(key.PK, msgs)
			})
			if pvw == nil && first {
				r.Eval(family+"/warm-object", outcome(second, nil))
				if second != ref {
					r.Violation("C05/verdict-depends-on-object-history", fmt.Sprintf("a signature placed into an object that verified another signature before gets verdict %v, reference %v (%s: %s)", second, ref, family, desc),
						map[string]any{"shape": shape, "case": family + ": " + desc, "e": dumpInt(sig.E)})
				}
				if !ref && len(msgs) <= len(key.PK.R) {
					var rz *gabi.CLSignature
					var okr bool
					pvr, _ := mon.Try(func() {
						rz, _ = w.Randomize(key.PK)
						if rz != nil {
							okr = rz.Verify(key.PK, msgs)
						}
					})
					if pvr == nil && rz != nil {
						r.Eval(family+"/randomised-invalid", outcome(okr, nil))
						if okr && !refimpl.CLValid(key.PK, rz, msgs) {
							r.Violation("C05/randomised-invalid-signature-accepted", fmt.Sprintf("the randomised copy of an invalid signature verifies (%s: %s)", family, desc), map[string]any{"shape": shape, "case": family + ": " + desc})
						}
					}
				}
			}
		}
		if lib == ref {
			return
		}
		rep := map[string]any{"shape": shape, "case": family + ": " + desc, "key": key.Name, "ms": dumpInts(msgs),
			"sig": map[string]string{"A": dumpInt(sig.A), "e": dumpInt(sig.E), "v": dumpInt(sig.V), "KeyshareP": dumpInt(sig.KeyshareP)}}
		if lib && !ref {
			why := "equation"
			if !refimpl.EInRange(key.PK, sig.E) {
				why = "e-outside-interval"
			} else if !sig.E.Go().ProbablyPrime(64) {
				why = "e-composite"
			}
			r.Violation("C05/invalid-signature-accepted/"+why, fmt.Sprintf("CLSignature.Verify accepts a signature the reference rejects (%s; %s: %s)", why, family, desc), rep)
		} else {
			r.Violation("C05/valid-signature-rejected", fmt.Sprintf("CLSignature.Verify rejects a signature that satisfies all conditions (%s: %s)", family, desc), rep)
		}
		return
	}

	// library signature + randomisation chain
	msBefore := cloneInts(ms)
	var sig *gabi.CLSignature
	var err error
	if pvs, stack := mon.Try(func() { sig, err = gabi.SignMessageBlock(k.SK, pk, ms) }); pvs != nil {
		r.Eval("lib-signature", "panic")
		r.Violation("C05/signing-panics", fmt.Sprintf("SignMessageBlock panicked: %v at %s (%d signing jobs run in parallel)", pvs, mon.PanicSite(stack), runtime.NumCPU()), map[string]any{"shape": shape, "ms": dumpInts(ms), "stack": stack})
		return
	}
	for i := range ms {
		if ms[i].Cmp(msBefore[i]) != 0 {
			r.Violation("C05/message-block-modified-by-sign", fmt.Sprintf("SignMessageBlock changed message %d of the caller's block", i), map[string]any{"shape": shape})
			ms[i] = msBefore[i]
		}
	}
	if err != nil {
		r.Eval("lib-signature", "error")
		r.Violation("C05/signing-failed", "SignMessageBlock failed: "+err.Error(), map[string]any{"shape": shape, "ms": dumpInts(ms)})
		return
	}
	if !check("lib-signature", "fresh", sig, ms, k) {
		return
	}
	warmSig, warmMs = sig, ms
	cur := sig
	for i := 0; i < 10; i++ {
		nx, err := cur.Randomize(pk)
		if err != nil {
			break
		}
		check("randomize", fmt.Sprintf("step %d vneg=%v", i, nx.V.Sign() < 0), nx, ms, k)
		cur = nx
	}
	if jr.IntN(8) == 0 {
		r.Sample(map[string]any{"shape": shape, "e_bits": sig.E.BitLen(), "v_bits": sig.V.BitLen()})
	}

	// forged signatures for chosen exponents
	lo := pow2(pk.Params.Le - 1)
	hi := add(lo, pow2(pk.Params.LePrime-1))
	es := map[string]*big.Int{
		"lo-2": sub(lo, bi(2)), "lo-1": sub(lo, bigOne), "lo": cp(lo), "lo+1": add(lo, bigOne),
		"first-prime>=lo": nextPrime(lo), "last-prime<=hi": prevPrime(hi), "hi": cp(hi), "hi+1": add(hi, bigOne), "hi+2": add(hi, bi(2)),
		"first-prime>hi": nextPrime(add(hi, bigOne)), "last-prime<lo": prevPrime(sub(lo, bigOne)),
		"prime-mid":        nextPrime(add(lo, randBig(jr, int(pk.Params.LePrime)-2))),
		"prime-upper-band": nextPrime(add(hi, randBig(jr, int(pk.Params.LePrime)-2))),
		"prime-2x-band":    nextPrime(add(lo, add(pow2(pk.Params.LePrime-1), randBig(jr, int(pk.Params.LePrime)-1)))),
		"prime-le-2-bits":  nextPrime(add(pow2(pk.Params.Le-3), randBig(jr, 100))),
		"prime-le+1-bits":  nextPrime(add(pow2(pk.Params.Le), randBig(jr, 100))),
		"prime-120-bits":   nextPrime(add(pow2(119), randBig(jr, 100))),
		"even-in-range":    add(lo, mul(bi(2), randBig(jr, 100))),
	}
	for _, sp := range []int64{3, 5, 7, 11, 13, 97, 65537} {
		es[fmt.Sprintf("small-prime-%d", sp)] = bi(sp)
		// composite inside the interval: sp * (prime near lo/sp)
		qq := nextPrime(add(new(big.Int).Div(lo, bi(sp)), bigOne))
		es[fmt.Sprintf("composite-%dxq", sp)] = mul(bi(sp), qq)
	}
	q9 := nextPrime(add(new(big.Int).Div(lo, bi(9)), bigOne))
	es["composite-9xq"] = mul(bi(9), q9)
	es["composite-3x5xq"] = mul(bi(15), nextPrime(add(new(big.Int).Div(lo, bi(15)), bigOne)))
	v := add(pow2(pk.Params.Lv-1), randBig(jr, int(pk.Params.Lv)-1))
	for name, e := range es {
		f := forgeCL(k, ms, e, v, nil)
		if f == nil {
			continue
		}
		if refimpl.CLEquation(pk, f.A, f.E, f.V, nil, ms) {
			if !(refimpl.EInRange(pk, e) && e.Go().ProbablyPrime(64)) {
				r.Add("forged_equation_holds_bad_e", 1)
			}
		} else {
			r.Violation("C05/harness-forgery-broken", "forged signature does not satisfy the equation: harness defect", map[string]any{"e": name})
			continue
		}
		check("forged", "e="+name, f, ms, k)
	}
	// forged with a keyshare contribution and with negative / short v
	kssP := new(big.Int).Exp(pk.R[0], randBig(jr, 255), pk.N)
	goodE := nextPrime(add(lo, randBig(jr, int(pk.Params.LePrime)-2)))
	fk := forgeCL(k, ms, goodE, v, kssP)
	check("forged", "with KeyshareP", fk, ms, k)
	check("forged", "v negative", forgeCL(k, ms, goodE, new(big.Int).Neg(v), nil), ms, k)
	check("forged", "v zero", forgeCL(k, ms, goodE, bi(0), nil), ms, k)

	// single-component alterations of the library signature
	alt := func(desc string, f func(s *gabi.CLSignature) ([]*big.Int, *world.Key)) {
		s2 := &gabi.CLSignature{A: cp(sig.A), E: cp(sig.E), V: cp(sig.V), KeyshareP: cp(sig.KeyshareP)}
		msgs, key := f(s2)
		if key == nil {
			key = k
		}
		check("alter", desc, s2, msgs, key)
	}
	same := func() []*big.Int { return cloneInts(ms) }
	alt("A+1", func(s *gabi.CLSignature) ([]*big.Int, *world.Key) { s.A.Add(s.A, bigOne); return same(), nil })
	alt("A negated mod N", func(s *gabi.CLSignature) ([]*big.Int, *world.Key) { s.A.Sub(pk.N, s.A); return same(), nil })
	alt("A+N", func(s *gabi.CLSignature) ([]*big.Int, *world.Key) { s.A.Add(s.A, pk.N); return same(), nil })
	alt("e -> next prime", func(s *gabi.CLSignature) ([]*big.Int, *world.Key) {
		s.E = nextPrime(add(s.E, bi(2)))
		return same(), nil
	})
	alt("e+ord", func(s *gabi.CLSignature) ([]*big.Int, *world.Key) { s.E.Add(s.E, k.Ord); return same(), nil })
	alt("v+1", func(s *gabi.CLSignature) ([]*big.Int, *world.Key) { s.V.Add(s.V, bigOne); return same(), nil })
	alt("v-1", func(s *gabi.CLSignature) ([]*big.Int, *world.Key) { s.V.Sub(s.V, bigOne); return same(), nil })
	alt("v+ord (equation-preserving)", func(s *gabi.CLSignature) ([]*big.Int, *world.Key) { s.V.Add(s.V, k.Ord); return same(), nil })
	alt("v-2^Lv*ord (negative, equation-preserving)", func(s *gabi.CLSignature) ([]*big.Int, *world.Key) {
		s.V.Sub(s.V, mul(pow2(pk.Params.Lv), k.Ord))
		return same(), nil
	})
	alt("KeyshareP added", func(s *gabi.CLSignature) ([]*big.Int, *world.Key) { s.KeyshareP = cp(kssP); return same(), nil })
	alt("KeyshareP = 1 (neutral element)", func(s *gabi.CLSignature) ([]*big.Int, *world.Key) { s.KeyshareP = bi(1); return same(), nil })
	for i := range ms {
		i := i
		alt(fmt.Sprintf("m[%d]+1", i), func(s *gabi.CLSignature) ([]*big.Int, *world.Key) {
			m := same()
			m[i] = add(m[i], bigOne)
			return m, nil
		})
		alt(fmt.Sprintf("m[%d]<->digest", i), func(s *gabi.CLSignature) ([]*big.Int, *world.Key) {
			m := same()
			m[i] = refimpl.IntHash(m[i].Bytes())
			return m, nil
		})
		alt(fmt.Sprintf("m[%d]+ord", i), func(s *gabi.CLSignature) ([]*big.Int, *world.Key) {
			m := same()
			m[i] = add(refimpl.Norm(m[i], pk.Params.Lm), k.Ord)
			return m, nil
		})
	}
	alt("block truncated", func(s *gabi.CLSignature) ([]*big.Int, *world.Key) { return same()[:n-1], nil })
	alt("block extended by 0", func(s *gabi.CLSignature) ([]*big.Int, *world.Key) { return append(same(), bi(0)), nil })
	alt("block extended by 1", func(s *gabi.CLSignature) ([]*big.Int, *world.Key) { return append(same(), bi(1)), nil })
	if n >= 2 {
		alt("block rotated", func(s *gabi.CLSignature) ([]*big.Int, *world.Key) {
			m := same()
			return append(m[1:], m[0]), nil
		})
	}
	for _, other := range []string{"toy512a", "toy512b", "toy256a"} {
		ok := world.Fixture(other)
		if ok != k && len(ok.PK.R) >= n {
			alt("other key "+other, func(s *gabi.CLSignature) ([]*big.Int, *world.Key) { return same(), ok })
		}
	}
	// the same modulus with other bases / S / Z: a different public key although n is the same. The genuine signature is verified
	// under the genuine key immediately before, so that anything remembered per modulus or per block is in place.
	sameN := func(desc string, f func(p *gabikeys.PublicKey)) {
		p2 := *pk
		p2.R = make([]*big.Int, len(pk.R))
		for i := range pk.R {
			p2.R[i] = cp(pk.R[i])
		}
		p2.S, p2.Z, p2.N = cp(pk.S), cp(pk.Z), cp(pk.N)
		f(&p2)
		vk := &world.Key{Name: k.Name + "/" + desc, SK: k.SK, PK: &p2, Ord: k.Ord}
		alt("same modulus, "+desc, func(s *gabi.CLSignature) ([]*big.Int, *world.Key) {
			mon.Try(func() { sig.Verify(pk, same()) })
			return same(), vk
		})
	}
	mulS := func(x *big.Int) *big.Int { return new(big.Int).Mod(mul(x, pk.S), pk.N) }
	sameN(fmt.Sprintf("R[%d]*S", n-1), func(p *gabikeys.PublicKey) { p.R[n-1] = mulS(p.R[n-1]) })
	sameN("R[0]*S", func(p *gabikeys.PublicKey) { p.R[0] = mulS(p.R[0]) })
	if n >= 2 {
		sameN("R[0]<->R[1]", func(p *gabikeys.PublicKey) { p.R[0], p.R[1] = p.R[1], p.R[0] })
	}
	sameN("S squared", func(p *gabikeys.PublicKey) { p.S = new(big.Int).Mod(mul(p.S, p.S), p.N) })
	sameN("Z*S", func(p *gabikeys.PublicKey) { p.Z = mulS(p.Z) })
	// alterations of the keyshare-bound forged signature
	if fk != nil {
		s2 := &gabi.CLSignature{A: cp(fk.A), E: cp(fk.E), V: cp(fk.V)}
		check("alter", "KeyshareP removed", s2, ms, k)
		s3 := &gabi.CLSignature{A: cp(fk.A), E: cp(fk.E), V: cp(fk.V), KeyshareP: add(fk.KeyshareP, bigOne)}
		check("alter", "KeyshareP+1", s3, ms, k)
		s4 := &gabi.CLSignature{A: cp(fk.A), E: cp(fk.E), V: cp(fk.V), KeyshareP: add(fk.KeyshareP, pk.N)}
		check("alter", "KeyshareP+N (same residue)", s4, ms, k)
	}
}
