package props

import (
	"bytes"
	"crypto/aes"
	"encoding/binary"
	"encoding/json"
	"fmt"
	"github.com/privacybydesign/gabi/safeprime"
	"github.com/privacybydesign/gabi/zkproof"
	"math/rand/v2"
	"os"
	"os/exec"
	"path/filepath"
	"regexp"
	"runtime"
	"sort"
	"strings"
	"sync"
	"sync/atomic"
	"time"

	"github.com/anishathalye/porcupine"
	"github.com/privacybydesign/gabi"
	"github.com/privacybydesign/gabi/big"
	"github.com/privacybydesign/gabi/gabikeys"
	"github.com/privacybydesign/gabi/keyproof"
	"github.com/privacybydesign/gabi/rangeproof"
	"github.com/privacybydesign/gabi/verifhooks"

	"verifharness/mon"
	"verifharness/world"
)

func init() {
	Registry["C20"] = &Check{
		Level: "exploration",
		Rule: "race-detector build; child processes run repeated workloads with GOMAXPROCS in {2,4,16} and 2..64 goroutines: W1 one credential shared by goroutines doing first-time and repeated NonrevPrepareCache, proofs with and without non-revocation (with range parts), verification; W2 one public key shared by provers and verifiers of several credentials; " +
			"W3 the process-wide fast generator and a seeded CPRNG read concurrently; W4 parallel GenerateKeyPair, two concurrent key-proof constructions, one key-proof structure shared by a prover and two verifiers of different proofs (copies prepared beforehand, simultaneous start) and 4/8/16 goroutines asking zkproof.BuildGroup for the groups of three primes (each answer compared with the group computed alone); every race report is read from the detector's log (halt_on_error=0), de-duplicated by its pair of innermost gabi frames, and any report with a gabi frame is a violation; " +
			"every concurrently produced proof is verified and every key checked with the C16 oracle; keystream: a CPRNG with a known seed is read concurrently (8..200 bytes), each result is located in the AES keystream computed by the harness, histories with call/return stamps are checked with porcupine against the model 'Read(n) returns the next unread block range', " +
			"and long histories by an interval check (ranges pairwise disjoint, gap-free, total = blocks consumed); non-trivial = a workload round completed; distinct by (workload, GOMAXPROCS, goroutines, observed interleaving signature) hash",
		Run: runC20,
	}
}

type c20Summary struct {
	Workload   string         `json:"workload"`
	Procs      int            `json:"procs"`
	Goroutines int            `json:"goroutines"`
	Rounds     int            `json:"rounds"`
	Proofs     int            `json:"proofs"`
	Rejected   int            `json:"rejected"`
	Ambiguous  int            `json:"ambiguous"`
	Errors     []string       `json:"errors"`
	Signatures []string       `json:"signatures"`
	Keystream  map[string]any `json:"keystream,omitempty"`
	Violations []c20Viol      `json:"violations"`
}

type c20Viol struct {
	Sig string `json:"sig"`
	Msg string `json:"msg"`
}

var raceBlockRe = regexp.MustCompile(`(?s)WARNING: DATA RACE.*?==================`)
var frameRe = regexp.MustCompile(`(?m)^  (github\.com/privacybydesign/gabi\S*?)\(\)\n\s+(\S+?):(\d+)`)

// raceSignature returns the pair of innermost gabi frames of the two conflicting accesses.
func raceSignature(block string) (string, bool) {
	parts := regexp.MustCompile(`(?m)^(Previous |)(read|write|Read|Write|atomic)[^\n]*by [^\n]*:$`).Split(block, -1)
	var sig []string
	for _, p := range parts[1:] {
		var m []string
		for _, cand := range frameRe.FindAllStringSubmatch(p, -1) {
			if strings.Contains(cand[1], "/gabi/big.") {
				continue // thin math/big wrappers: the caller is the informative frame
			}
			m = cand
			break
		}
		if m == nil {
			m = frameRe.FindStringSubmatch(p)
		}
		if m != nil {
			fn := m[1]
			fn = fn[strings.LastIndex(fn, "/")+1:]
			sig = append(sig, fn+"@"+filepath.Base(m[2])+":"+m[3])
		} else {
			sig = append(sig, "non-gabi")
		}
		if len(sig) == 2 {
			break
		}
	}
	gabi := strings.Contains(block, "github.com/privacybydesign/gabi")
	sort.Strings(sig)
	return strings.Join(sig, " <-> "), gabi
}

func runC20(r *mon.Run) {
	self, err := os.Executable()
	if err != nil {
		r.Inconclusive("cannot locate own executable")
		return
	}
	r.Set("race_detector_enabled", raceEnabled)
	if !raceEnabled {
		r.Inconclusive("vcheck was built without -race: the data-race half of the property cannot be decided")
	}
	dir, err := os.MkdirTemp("", "c20race")
	if err != nil {
		panic(err)
	}
	defer os.RemoveAll(dir)
	type run struct {
		workload string
		procs    int
		g        int
		rounds   int
	}
	var runs []run
	gs := map[string][]int{"W1": {2, 4, 8, 32}, "W2": {4, 16}, "W3": {2, 16, 64}, "W4": {2}}
	for _, wl := range []string{"W1", "W2", "W3", "W4"} {
		for _, procs := range []int{2, 4, 16} {
			for _, g := range gs[wl] {
				rounds := r.Pick(3, 30)
				if wl == "W4" {
					rounds = r.Pick(1, 3)
					if procs != 16 && !r.Thorough() {
						continue
					}
				}
				if !r.Thorough() && wl != "W3" && procs == 4 && g > 4 {
					continue
				}
				runs = append(runs, run{wl, procs, g, rounds})
			}
		}
	}
	type result struct {
		run  run
		sum  c20Summary
		out  string
		err  error
		logs string
	}
	results := make([]result, len(runs))
	// children are run a few at a time: each already uses several cores
	sem := make(chan struct{}, 3)
	var wg sync.WaitGroup
	for i, ru := range runs {
		wg.Add(1)
		go func(i int, ru run) {
			defer wg.Done()
			sem <- struct{}{}
			defer func() { <-sem }()
			logBase := filepath.Join(dir, fmt.Sprintf("race-%d", i))
			cmd := exec.Command(self, "c20child", ru.workload, fmt.Sprint(ru.procs), fmt.Sprint(ru.g), fmt.Sprint(ru.rounds), fmt.Sprint(r.Seed+int64(i)))
			cmd.Env = append(os.Environ(), "GORACE=halt_on_error=0 log_path="+logBase, fmt.Sprintf("GOMAXPROCS=%d", ru.procs))
			var stdout, stderr bytes.Buffer
			cmd.Stdout, cmd.Stderr = &stdout, &stderr
			done := make(chan error, 1)
			if err := cmd.Start(); err != nil {
				results[i] = result{run: ru, err: err}
				return
			}
			go func() { done <- cmd.Wait() }()
			var werr error
			select {
			case werr = <-done:
			case <-time.After(45 * time.Minute):
				cmd.Process.Kill()
				werr = fmt.Errorf("watchdog")
			}
			res := result{run: ru, out: stdout.String(), err: werr}
			matches, _ := filepath.Glob(logBase + ".*")
			for _, m := range matches {
				b, _ := os.ReadFile(m)
				res.logs += string(b)
			}
			if werr != nil && werr.Error() != "watchdog" {
				res.logs += "\n--- stderr ---\n" + stderr.String()
			}
			results[i] = res
		}(i, ru)
	}
	wg.Wait()
	totalReports := 0
	sigCount := map[string]int{}
	for _, res := range results {
		desc := fmt.Sprintf("%s procs=%d goroutines=%d rounds=%d", res.run.workload, res.run.procs, res.run.g, res.run.rounds)
		var sum c20Summary
		if i := strings.LastIndex(res.out, "SUMMARY "); i >= 0 {
			_ = json.Unmarshal([]byte(strings.TrimSpace(res.out[i+8:])), &sum)
		}
		if res.err != nil && res.err.Error() == "watchdog" {
			r.Inconclusive("watchdog fired for " + desc)
			continue
		}
		crashed := res.err != nil && sum.Workload == ""
		if crashed {
			// the child died: a fatal runtime error (e.g. concurrent map access) is a violation, anything else inconclusive
			if strings.Contains(res.logs, "fatal error:") || strings.Contains(res.logs, "concurrent map") {
				r.Violation("C20/fatal-runtime-error/"+res.run.workload, "concurrent workload died with a fatal runtime error ("+desc+")", map[string]any{"workload": desc, "output": tail(res.logs, 4000)})
			} else if i := strings.Index(res.logs, "panic:"); i >= 0 && strings.Contains(res.logs[i:], "github.com/privacybydesign/gabi") {
				// a panic in one of the library's own goroutines (worker pools) cannot be recovered by the child: the workload only
				// performs operations that succeed sequentially, so the library crashed under concurrent use
				r.Violation("C20/library-panics-under-concurrency/"+res.run.workload, "concurrent workload died with a panic inside the library ("+desc+"): "+firstLine(res.logs[i:]), map[string]any{"workload": desc, "output": tail(res.logs[i:], 4000)})
			} else {
				r.Inconclusive("child for " + desc + " failed: " + res.err.Error() + " " + tail(res.logs, 400))
			}
			continue
		}
		r.Eval(res.run.workload, "accept")
		for _, s := range sum.Signatures {
			r.Distinct(res.run.workload, res.run.procs, res.run.g, s)
		}
		r.Add("proofs_verified_"+res.run.workload, int64(sum.Proofs))
		r.Add("honest_rejections_ambiguous_index", int64(sum.Ambiguous))
		for _, v := range sum.Violations {
			r.Violation(v.Sig, v.Msg+" ("+desc+")", map[string]any{"workload": desc})
		}
		if sum.Keystream != nil {
			for k, v := range sum.Keystream {
				if f, ok := v.(float64); ok {
					r.Add("keystream_"+k, int64(f))
				}
			}
		}
		for _, blk := range raceBlockRe.FindAllString(res.logs, -1) {
			totalReports++
			sig, isGabi := raceSignature(blk)
			sigCount[sig]++
			if isGabi {
				r.Violation("C20/data-race/"+sig, fmt.Sprintf("the race detector reports a data race with a frame inside gabi: %s (first seen in %s)", sig, desc), map[string]any{"workload": desc, "report": tail(blk, 6000)})
			}
		}
	}
	r.Set("race_reports_total", totalReports)
	r.Set("race_report_signatures", sigCount)
	r.Sample(map[string]any{"runs": len(runs), "example": fmt.Sprintf("%+v", runs[0])})
	r.FloorAccept("W1", 3)
	r.FloorAccept("W2", 2)
	r.FloorAccept("W3", 3)
	r.FloorAccept("W4", 1)
	r.Floor("keystream reads located", 5000, func() int64 { return r.Get("keystream_reads") })
	r.Floor("porcupine histories", 10, func() int64 { return r.Get("keystream_porcupine_histories") })
}

func tail(s string, n int) string {
	if len(s) > n {
		return s[len(s)-n:]
	}
	return s
}

// ---------------------------------------------------------------------------------------------
// child side

// C20Child runs one workload and prints a SUMMARY line.
func C20Child(args []string) {
	var procs, g, rounds int
	var seed int64
	wl := args[0]
	fmt.Sscan(args[1], &procs)
	fmt.Sscan(args[2], &g)
	fmt.Sscan(args[3], &rounds)
	fmt.Sscan(args[4], &seed)
	runtime.GOMAXPROCS(procs)
	sum := &c20Summary{Workload: wl, Procs: procs, Goroutines: g, Rounds: rounds}
	var mu sync.Mutex
	viol := func(sig, msg string) {
		mu.Lock()
		sum.Violations = append(sum.Violations, c20Viol{sig, msg})
		mu.Unlock()
	}
	go mon.DeadlockMonitor(func(site, dump string) {
		viol("C20/deadlock@"+site, "every goroutine of the workload is blocked for good, at least one of them inside the library ("+site+"); nothing left in the process can wake them: "+dump)
		mu.Lock()
		b, _ := json.Marshal(sum)
		mu.Unlock()
		fmt.Println("SUMMARY " + string(b))
		os.Exit(0)
	})
	rng := rand.New(rand.NewPCG(uint64(seed), 20))
	switch wl {
	case "W1":
		c20W1(sum, rng, g, rounds, viol)
	case "W2":
		c20W2(sum, rng, g, rounds, viol)
	case "W3":
		c20W3(sum, rng, g, rounds, viol)
	case "W4":
		c20W4(sum, rng, g, rounds, viol)
	}
	b, _ := json.Marshal(sum)
	fmt.Println("SUMMARY " + string(b))
}

type c20ev struct {
	g  int
	op string
}

func c20W1(sum *c20Summary, rng *rand.Rand, g, rounds int, viol func(string, string)) {
	key := world.Fixture("toy256a")
	pk := key.PK
	var proofs, rejected, ambiguous atomic.Int64
	for round := 0; round < rounds; round++ {
		rev, err := world.NewRev(key)
		if err != nil {
			panic(err)
		}
		// a FRESH credential per round: the first NonrevPrepareCache happens concurrently with everything else
		cred, err := key.SignCredRev([]*big.Int{randBig(rng, 250), randBig(rng, 700), bi(int64(30 + rng.IntN(50))), randBig(rng, 100)}, rev)
		if err != nil {
			panic(err)
		}
		var order []c20ev
		var omu sync.Mutex
		var yields atomic.Int64
		verifhooks.SetVerifPoint(func(name string) {
			if strings.HasPrefix(name, "nonrev.") {
				if yields.Add(1)%2 == 0 {
					runtime.Gosched()
				} else {
					time.Sleep(50 * time.Microsecond)
				}
			}
		})
		start := make(chan struct{})
		var wg sync.WaitGroup
		seeds := make([]uint64, g)
		for i := range seeds {
			seeds[i] = rng.Uint64()
		}
		for w := 0; w < g; w++ {
			wg.Add(1)
			go func(w int) {
				defer wg.Done()
				lr := rand.New(rand.NewPCG(seeds[w], 1))
				<-start
				for it := 0; it < 4; it++ {
					op := lr.IntN(4)
					if it == 0 && w%2 == 0 {
						op = 0 // half of the goroutines start with cache preparation
					}
					ctx, nonce := freshNonces(lr)
					switch op {
					case 0:
						if err := cred.C.NonrevPrepareCache(); err != nil {
							viol("C20/concurrent-prepare-fails", "NonrevPrepareCache failed under concurrency: "+err.Error())
						}
						omu.Lock()
						order = append(order, c20ev{w, "P"})
						omu.Unlock()
					case 1, 2:
						var stm map[int][]*rangeproof.Statement
						if op == 2 {
							st, _ := rangeproof.NewStatement(rangeproof.GreaterOrEqual, bi(18))
							stm = map[int][]*rangeproof.Statement{2: {st}}
						}
						d, err := cred.C.CreateDisclosureProof([]int{1}, stm, true, ctx, nonce)
						if err != nil {
							viol("C20/concurrent-proof-fails", "CreateDisclosureProof (non-revocation) failed under concurrency: "+err.Error())
							continue
						}
						// alternately a received copy and the produced object itself (whose signed accumulator is the very
						// object the credential's witness and all other proofs point to): verifying must not write to it
						recv := d
						if it%2 == 0 {
							recv = cloneD(d)
						}
						ok := gabi.ProofList{recv}.Verify([]*gabikeys.PublicKey{pk}, ctx, nonce, false, nil)
						proofs.Add(1)
						if !ok {
							if countSmall(d) >= 2 {
								ambiguous.Add(1)
							} else {
								rejected.Add(1)
								viol("C20/concurrent-proof-invalid", "a proof produced concurrently does not verify (non-revocation)")
							}
						}
						omu.Lock()
						order = append(order, c20ev{w, "N"})
						omu.Unlock()
					case 3:
						d, err := cred.C.CreateDisclosureProof([]int{2}, nil, false, ctx, nonce)
						if err != nil {
							viol("C20/concurrent-proof-fails", "CreateDisclosureProof failed under concurrency: "+err.Error())
							continue
						}
						ok := d.Verify(pk, ctx, nonce, false)
						proofs.Add(1)
						if !ok {
							rejected.Add(1)
							viol("C20/concurrent-proof-invalid", "a proof produced concurrently does not verify")
						}
						omu.Lock()
						order = append(order, c20ev{w, "D"})
						omu.Unlock()
					}
				}
			}(w)
		}
		close(start)
		wg.Wait()
		verifhooks.SetVerifPoint(nil)
		sig := ""
		for _, e := range order {
			sig += fmt.Sprintf("%d%s", e.g, e.op)
			if len(sig) > 60 {
				break
			}
		}
		sum.Signatures = append(sum.Signatures, sig)
	}
	sum.Proofs, sum.Rejected, sum.Ambiguous = int(proofs.Load()), int(rejected.Load()), int(ambiguous.Load())
}

func c20W2(sum *c20Summary, rng *rand.Rand, g, rounds int, viol func(string, string)) {
	key := world.Fixture("toy256a")
	pk := key.PK
	rev, _ := world.NewRev(key)
	creds := make([]*world.Cred, g)
	for i := range creds {
		var err error
		if i%2 == 0 {
			creds[i], err = key.SignCredRev([]*big.Int{randBig(rng, 250), randBig(rng, 700), bi(44)}, rev)
		} else {
			creds[i], err = key.SignCred([]*big.Int{randBig(rng, 250), randBig(rng, 700), bi(44)})
		}
		if err != nil {
			panic(err)
		}
	}
	var proofs, rejected, ambiguous atomic.Int64
	type item struct {
		d          *gabi.ProofD
		ctx, nonce *big.Int
	}
	for round := 0; round < rounds; round++ {
		ch := make(chan item, g*4)
		var wg sync.WaitGroup
		seeds := make([]uint64, g)
		for i := range seeds {
			seeds[i] = rng.Uint64()
		}
		for w := 0; w < g; w++ {
			wg.Add(1)
			go func(w int) {
				defer wg.Done()
				lr := rand.New(rand.NewPCG(seeds[w], 2))
				for it := 0; it < 3; it++ {
					ctx, nonce := freshNonces(lr)
					d, err := creds[w].C.CreateDisclosureProof([]int{1}, nil, w%2 == 0, ctx, nonce)
					if err != nil {
						viol("C20/concurrent-proof-fails", "CreateDisclosureProof failed with a shared public key: "+err.Error())
						continue
					}
					ch <- item{d, ctx, nonce}
				}
			}(w)
		}
		var vg sync.WaitGroup
		for v := 0; v < 4; v++ {
			vg.Add(1)
			go func() {
				defer vg.Done()
				for it := range ch {
					ok := gabi.ProofList{cloneD(it.d)}.Verify([]*gabikeys.PublicKey{pk}, it.ctx, it.nonce, false, nil)
					proofs.Add(1)
					if !ok {
						if it.d.NonRevocationProof != nil && countSmall(it.d) >= 2 {
							ambiguous.Add(1)
						} else {
							rejected.Add(1)
							viol("C20/concurrent-proof-invalid", "a proof produced with a shared public key does not verify")
						}
					}
				}
			}()
		}
		wg.Wait()
		close(ch)
		vg.Wait()
		sum.Signatures = append(sum.Signatures, fmt.Sprintf("round%d", round))
	}
	sum.Proofs, sum.Rejected, sum.Ambiguous = int(proofs.Load()), int(rejected.Load()), int(ambiguous.Load())
}

type c20read struct {
	g          int
	n          int
	call, ret  int64
	start, end int // block range [start, end)
}

// c20W3: keystream allocation of a seeded CPRNG plus the process-wide generator.
func c20W3(sum *c20Summary, rng *rand.Rand, g, rounds int, viol func(string, string)) {
	ks := map[string]any{}
	var totalReads, porcHist, porcUnknown int64
	for round := 0; round < rounds*4; round++ {
		var seed [32]byte
		for i := range seed {
			seed[i] = byte(rng.Uint32())
		}
		c, err := verifhooks.NewCPRNG(&seed)
		if err != nil {
			panic(err)
		}
		blk, _ := aes.NewCipher(seed[:])
		long := round%4 == 3
		per := 12
		if long {
			per = 400
		}
		// own keystream: block i = AES_k(LE64(i) || 0^8)
		maxBlocks := g*per*13 + 16
		index := make(map[[8]byte]int, maxBlocks)
		stream := make([]byte, maxBlocks*16)
		for i := 0; i < maxBlocks; i++ {
			var pt [16]byte
			binary.LittleEndian.PutUint64(pt[:], uint64(i))
			blk.Encrypt(stream[i*16:], pt[:])
			var k [8]byte
			copy(k[:], stream[i*16:])
			index[k] = i
		}
		reads := make([][]c20read, g)
		var clock atomic.Int64
		start := make(chan struct{})
		var wg sync.WaitGroup
		seeds := make([]uint64, g)
		for i := range seeds {
			seeds[i] = rng.Uint64()
		}
		for w := 0; w < g; w++ {
			wg.Add(1)
			go func(w int) {
				defer wg.Done()
				lr := rand.New(rand.NewPCG(seeds[w], 3))
				<-start
				for it := 0; it < per; it++ {
					n := 8 + lr.IntN(193)
					buf := make([]byte, n)
					t0 := clock.Add(1)
					c.Read(buf)
					t1 := clock.Add(1)
					var k [8]byte
					copy(k[:], buf)
					s, ok := index[k]
					nb := (n + 15) / 16
					if !ok || !bytes.Equal(buf, stream[s*16:s*16+n]) {
						viol("C20/keystream-corrupt", fmt.Sprintf("a %d-byte read does not match any position of the generator's keystream", n))
						s = -1
					}
					reads[w] = append(reads[w], c20read{w, n, t0, t1, s, s + nb})
					// also exercise the process-wide generator (race detector) with short and long reads
					if it%4 == 0 {
						verifhooks.FastRandomBigInt(pow2(uint(8 + lr.IntN(1200))))
					}
				}
			}(w)
		}
		close(start)
		wg.Wait()
		var all []c20read
		for _, l := range reads {
			all = append(all, l...)
		}
		totalReads += int64(len(all))
		// interval check
		sort.Slice(all, func(a, b int) bool { return all[a].start < all[b].start })
		next := 0
		for _, rd := range all {
			if rd.start < 0 {
				continue
			}
			if rd.start < next {
				viol("C20/keystream-block-handed-out-twice", fmt.Sprintf("keystream blocks [%d,%d) were handed to goroutine %d although blocks up to %d were already given out (%d goroutines)", rd.start, rd.end, rd.g, next, g))
				break
			}
			if rd.start > next {
				viol("C20/keystream-gap", fmt.Sprintf("keystream blocks [%d,%d) were never handed out", next, rd.start))
				break
			}
			next = rd.end
		}
		// porcupine on short histories
		if !long {
			var ops []porcupine.Operation
			for _, rd := range all {
				ops = append(ops, porcupine.Operation{ClientId: rd.g, Input: rd.n, Call: rd.call, Output: rd.start, Return: rd.ret})
			}
			model := porcupine.Model{
				Init: func() interface{} { return 0 },
				Step: func(state, input, output interface{}) (bool, interface{}) {
					st, n, out := state.(int), input.(int), output.(int)
					return out == st, st + (n+15)/16
				},
			}
			res := porcupine.CheckOperationsTimeout(model, ops, 20*time.Second)
			porcHist++
			switch res {
			case porcupine.Illegal:
				viol("C20/keystream-history-not-linearizable", fmt.Sprintf("a history of %d concurrent reads is not linearizable against 'Read(n) returns the next unread block range' (%d goroutines)", len(ops), g))
			case porcupine.Unknown:
				porcUnknown++
			}
		}
		// signature: order of the first reads by block
		sig := ""
		for i, rd := range all {
			if i >= 24 {
				break
			}
			sig += fmt.Sprintf("%d.", rd.g)
		}
		sum.Signatures = append(sum.Signatures, sig)
	}
	ks["reads"] = totalReads
	ks["porcupine_histories"] = porcHist
	ks["porcupine_unknown"] = porcUnknown
	sum.Keystream = ks
}

func c20W4(sum *c20Summary, rng *rand.Rand, g, rounds int, viol func(string, string)) {
	for round := 0; round < rounds; round++ {
		var wg sync.WaitGroup
		// parallel key generation
		for w := 0; w < 3; w++ {
			wg.Add(1)
			ln := []uint{128, 160, 192}[w]
			go func() {
				defer wg.Done()
				params := world.ToyParams(ln, 80)
				sk, pk, err := gabikeys.GenerateKeyPair(params, 3, 0, time.Unix(2_000_000_000, 0))
				if err != nil {
					viol("C20/concurrent-keygen-fails", "GenerateKeyPair failed under concurrency: "+err.Error())
					return
				}
				if !keyproof.CanProve(sk.PPrime, sk.QPrime) || sk.Validate() != nil || pk.N.Cmp(mul(sk.P, sk.Q)) != 0 || uint(pk.N.BitLen()) != ln {
					viol("C20/concurrent-keygen-invalid", "a key generated concurrently is not well-formed")
				}
			}()
		}
		// two concurrent key-proof constructions (exp worker pool)
		for w := 0; w < g; w++ {
			wg.Add(1)
			go func() {
				defer wg.Done()
				pp, qp, n := provableKey(48)
				s := keyproof.NewValidKeyProofStructure(n, []*big.Int{bi(36), bi(49)})
				proof := s.BuildProof(pp, qp)
				if !s.VerifyProof(proof) {
					viol("C20/concurrent-keyproof-invalid", "a key proof built concurrently does not verify")
				}
			}()
		}
		wg.Wait()
		// one key description (structure object) shared by a prover and several verifiers: the structure is the per-key
		// statement and only read while proofs are built and checked
		{
			pp, qp, n := provableKey(48)
			s := keyproof.NewValidKeyProofStructure(n, []*big.Int{bi(36), bi(49)})
			first := s.BuildProof(pp, qp)
			second := s.BuildProof(pp, qp)
			// every verifier has its own copy of a proof (verification writes the component names into the proof it is given);
			// what is shared is the structure. The copies are made beforehand and all goroutines start together, so that the
			// short structure-checking phases of the verifiers overlap; the two verifiers check DIFFERENT proofs.
			var copies [2]keyproof.ValidKeyProof
			copied := true
			for k, src := range []keyproof.ValidKeyProof{first, second} {
				if jb, err := json.Marshal(src); err != nil || json.Unmarshal(jb, &copies[k]) != nil {
					copied = false
				}
			}
			if !copied {
				viol("C20/harness", "key proof does not survive a JSON round trip")
			}
			start := make(chan struct{})
			var wg2 sync.WaitGroup
			for w := 0; w < 3 && copied; w++ {
				wg2.Add(1)
				go func(w int) {
					defer wg2.Done()
					<-start
					if w == 0 {
						p2 := s.BuildProof(pp, qp)
						if !s.VerifyProof(p2) {
							viol("C20/concurrent-keyproof-invalid", "a key proof built while the same structure verifies other proofs does not verify")
						}
						return
					}
					if !s.VerifyProof(copies[w-1]) {
						viol("C20/concurrent-keyproof-invalid", "a valid key proof is rejected while the same structure is used by other goroutines")
					}
				}(w)
			}
			close(start)
			wg2.Wait()
			sum.Proofs += 3
		}
		// the group description used by key proofs, asked for by many goroutines for several primes at once: every answer is the
		// group of the prime that was asked for (as computed alone beforehand). First round only; fewer requests on few Ps.
		if round == 0 {
			hammerIts := 1200
			if runtime.GOMAXPROCS(0) < 8 {
				hammerIts = 300
			}
			type gref struct{ p, order, gg, hh *big.Int }
			var refs []gref
			for _, bits := range []int{72, 80, 96} {
				sp, err := safeprime.Generate(bits, nil)
				if err != nil {
					continue
				}
				gr, ok := zkproof.BuildGroup(sp)
				if !ok {
					continue
				}
				refs = append(refs, gref{sp, cp(gr.Order), cp(gr.G), cp(gr.H)})
			}
			for _, gor := range []int{4, 8, 16} {
				start := make(chan struct{})
				var wg3 sync.WaitGroup
				for w := 0; w < gor && len(refs) >= 2; w++ {
					wg3.Add(1)
					go func(w int) {
						defer wg3.Done()
						<-start
						for it := 0; it < hammerIts; it++ {
							// mostly one prime per goroutine (neighbours ask for different ones), now and then another
							ref := refs[w%len(refs)]
							if it%16 == 15 {
								ref = refs[(w+it)%len(refs)]
							}
							gr, ok := zkproof.BuildGroup(cp(ref.p))
							if !ok || gr.P == nil || gr.P.Cmp(ref.p) != 0 || gr.Order.Cmp(ref.order) != 0 || gr.G.Cmp(ref.gg) != 0 || gr.H.Cmp(ref.hh) != 0 {
								viol("C20/concurrent-group-differs", fmt.Sprintf("BuildGroup for a %d-bit prime returned ok=%v and another group than when computed alone", ref.p.BitLen(), ok))
								return
							}
							var e big.Int
							if !gr.Exp(&e, "g", bi(5), nil) || e.Cmp(new(big.Int).Exp(ref.gg, bi(5), ref.p)) != 0 {
								viol("C20/concurrent-group-differs", "Group.Exp on a concurrently built group gives another value than g^5 mod p")
								return
							}
						}
					}(w)
				}
				close(start)
				wg3.Wait()
			}
			sum.Proofs += 8
		}
		sum.Signatures = append(sum.Signatures, fmt.Sprintf("round%d", round))
		sum.Proofs += g
	}
}

func firstLine(s string) string {
	if i := strings.Index(s, "\n"); i >= 0 {
		return s[:i]
	}
	return s
}
