package props

import (
	"bytes"
	"encoding/json"
	"encoding/xml"
	"fmt"
	"os"
	"os/exec"
	"path/filepath"
	"reflect"
	"regexp"
	"strings"
	"syscall"

	"github.com/fxamacker/cbor"
	"github.com/privacybydesign/gabi"
	"github.com/privacybydesign/gabi/big"
	"github.com/privacybydesign/gabi/gabikeys"
	"github.com/privacybydesign/gabi/rangeproof"
	"github.com/privacybydesign/gabi/revocation"

	"verifharness/mon"
	"verifharness/world"
)

func init() {
	Registry["C18"] = &Check{
		Level: "exploration",
		Rule: "integers: boundary non-negative values (0, leading zero bytes, 2^k-1, 2^k, up to 8192 bits) through JSON (base64 and bare decimal), XML and CBOR must come back equal; negative values must be refused by the text encodings or at least never come back as another number; " +
			"keys: fixture and freshly generated keys (0..20 bases, with/without revocation parts) written with WriteTo and read with every loader must be field-wise equal; every single-element deletion, negation, garbling (hex, float, empty, blank), wrong base count, unsupported modulus length, p/p' mismatch and non-safe prime of a key document must make the loader return an error (a panic or a silently accepted key with a missing/negative mandatory field is a violation); " +
			"messages: proof lists with every optional part, issuance messages, signatures, witnesses, signed accumulators, updates and event lists (JSON and CBOR), hashes: the re-read object verifies exactly as the original (accepting and deliberately corrupted ones) and a second marshal is byte-identical; " +
			"private-key file mode: prior state {absent, 0644, 0666, 0400, symlink, dangling symlink} x umask {000,022,027,077} x overwrite flag in a child process: whenever the file ends up containing the key its mode has no group/other bits; " +
			"non-trivial = the codec or loader was entered; distinct by (type, value | document mutation | file state) hash",
		Run: runC18,
	}
}

func runC18(r *mon.Run) {
	c18Ints(r)
	c18Keys(r)
	c18Messages(r)
	c18FileModes(r)
	r.FloorFam("int-json", 200)
	r.FloorFam("int-xml", 200)
	r.FloorFam("int-cbor", 200)
	r.FloorFam("int-negative", 50)
	r.FloorAccept("key-roundtrip", 6)
	r.FloorFam("key-malformed", 200)
	r.FloorFam("message", 100)
	r.FloorFam("filemode", 40)
}

// ---------------------------------------------------------------------------------------------

func c18Ints(r *mon.Run) {
	rng := r.Rand("ints")
	var vals []*big.Int
	for k := uint(0); k <= 8192; k += 1 + k/16 {
		vals = append(vals, pow2(k), sub(pow2(k), bigOne), add(pow2(k), bigOne))
	}
	for _, k := range []uint{7, 8, 15, 16, 63, 64, 255, 256, 1023, 1024, 2047, 2048, 4095, 4096, 8191, 8192} {
		vals = append(vals, pow2(k), sub(pow2(k), bigOne))
	}
	vals = append(vals, bi(0), bi(1), bi(255), bi(256))
	for i := 0; i < r.Pick(300, 20000); i++ {
		vals = append(vals, randBig(rng, 1+rng.IntN(4096)))
	}
	type xmlBox struct {
		V *big.Int `xml:"v"`
	}
	type box struct {
		V *big.Int `json:"v"`
	}
	for _, v := range vals {
		if v.Sign() < 0 {
			continue
		}
		rep := map[string]any{"value": dumpInt(v)}
		// JSON base64
		b, err := json.Marshal(box{v})
		var got box
		if err == nil {
			err = json.Unmarshal(b, &got)
		}
		r.Eval("int-json", "accept")
		r.Distinct("int", v.String())
		if err != nil || got.V == nil || got.V.Cmp(v) != 0 {
			r.Violation("C18/integer-json-roundtrip", fmt.Sprintf("JSON round trip changes %d-bit value (err=%v)", v.BitLen(), err), rep)
		}
		// JSON with leading zero bytes in the base64 payload and bare decimal
		padded := append([]byte{0, 0}, v.Bytes()...)
		pj, _ := json.Marshal(map[string][]byte{"v": padded})
		var got2 box
		if err := json.Unmarshal(pj, &got2); err != nil || got2.V.Cmp(v) != 0 {
			r.Violation("C18/integer-json-leading-zeros", "base64 with leading zero bytes decodes to another value", rep)
		}
		var got3 box
		if err := json.Unmarshal([]byte(`{"v":`+v.String()+`}`), &got3); err != nil || got3.V.Cmp(v) != 0 {
			r.Violation("C18/integer-json-decimal", fmt.Sprintf("bare decimal JSON decodes to another value (err=%v)", err), rep)
		}
		// XML
		xb, err := xml.Marshal(xmlBox{v})
		var gx xmlBox
		if err == nil {
			err = xml.Unmarshal(xb, &gx)
		}
		r.Eval("int-xml", "accept")
		if err != nil || gx.V == nil || gx.V.Cmp(v) != 0 {
			r.Violation("C18/integer-xml-roundtrip", fmt.Sprintf("XML round trip changes value (err=%v)", err), rep)
		}
		// CBOR
		cb, err := cbor.Marshal(box{v}, cbor.EncOptions{})
		var gc box
		if err == nil {
			err = cbor.Unmarshal(cb, &gc)
		}
		r.Eval("int-cbor", "accept")
		if err != nil || gc.V == nil || gc.V.Cmp(v) != 0 {
			r.Violation("C18/integer-cbor-roundtrip", fmt.Sprintf("CBOR round trip changes value (err=%v)", err), rep)
		}
	}
	// the same codecs decoding into a destination that already holds another value (a struct variable decoded into twice:
	// encoding/json and encoding/xml re-use non-nil pointer fields): the second value must replace the first completely
	prev := []*big.Int{bi(45), sub(pow2(300), bigOne), bi(0)}
	sel := []*big.Int{bi(0), bi(1), bi(255), bi(256)}
	for i, v := range vals {
		if v.Sign() >= 0 && (i < 200 || i%9 == 0) {
			sel = append(sel, v)
		}
	}
	for _, v := range sel {
		for _, pv := range prev {
			rep := map[string]any{"value": dumpInt(v), "destination_held": dumpInt(pv)}
			r.Eval("int-reused-destination", "accept")
			if b, err := json.Marshal(box{v}); err == nil {
				g := box{cp(pv)}
				if err := json.Unmarshal(b, &g); err != nil || g.V == nil || g.V.Cmp(v) != 0 {
					r.Violation("C18/integer-json-roundtrip/reused-destination", fmt.Sprintf("JSON decoding of a %d-bit value into a destination that held another value gives %s (err=%v)", v.BitLen(), dumpInt(g.V), err), rep)
				}
				g2 := box{cp(pv)}
				if err := json.Unmarshal([]byte(`{"v":`+v.String()+`}`), &g2); err != nil || g2.V == nil || g2.V.Cmp(v) != 0 {
					r.Violation("C18/integer-json-decimal/reused-destination", fmt.Sprintf("bare decimal JSON decoded into a destination that held another value gives %s (err=%v)", dumpInt(g2.V), err), rep)
				}
			}
			if xb, err := xml.Marshal(xmlBox{v}); err == nil {
				g := xmlBox{cp(pv)}
				if err := xml.Unmarshal(xb, &g); err != nil || g.V == nil || g.V.Cmp(v) != 0 {
					r.Violation("C18/integer-xml-roundtrip/reused-destination", fmt.Sprintf("XML decoding into a destination that held another value gives %s (err=%v)", dumpInt(g.V), err), rep)
				}
			}
			if cb, err := cbor.Marshal(box{v}, cbor.EncOptions{}); err == nil {
				g := box{cp(pv)}
				if err := cbor.Unmarshal(cb, &g); err != nil || g.V == nil || g.V.Cmp(v) != 0 {
					r.Violation("C18/integer-cbor-roundtrip/reused-destination", fmt.Sprintf("CBOR decoding into a destination that held another value gives %s (err=%v)", dumpInt(g.V), err), rep)
				}
			}
		}
	}
	// negatives
	for i := 0; i < 60; i++ {
		v := new(big.Int).Neg(add(randBig(rng, 1+rng.IntN(600)), bigOne))
		rep := map[string]any{"value": dumpInt(v)}
		r.Eval("int-negative", "accept")
		r.Distinct("neg", v.String())
		if b, err := json.Marshal(box{v}); err == nil {
			var g box
			if e2 := json.Unmarshal(b, &g); e2 == nil && g.V != nil && g.V.Cmp(v) != 0 {
				r.Violation("C18/negative-integer-altered/json", "a negative integer survives JSON marshalling and comes back as "+dumpInt(g.V), rep)
			}
		}
		var g box
		if err := json.Unmarshal([]byte(`{"v":`+v.String()+`}`), &g); err == nil {
			r.Violation("C18/negative-integer-accepted/json-decimal", "bare negative decimal accepted by the JSON decoder", rep)
		}
		xb, err := xml.Marshal(xmlBox{v})
		if err == nil {
			var gx xmlBox
			if e2 := xml.Unmarshal(xb, &gx); e2 == nil {
				if gx.V == nil || gx.V.Cmp(v) != 0 {
					r.Violation("C18/negative-integer-altered/xml", "a negative integer comes back from XML as another number", rep)
				} else {
					r.Violation("C18/negative-integer-accepted/xml", "negative integer accepted by the XML decoder", rep)
				}
			}
		}
		var gx xmlBox
		if err := xml.Unmarshal([]byte("<xmlBox><v>"+v.String()+"</v></xmlBox>"), &gx); err == nil {
			r.Violation("C18/negative-integer-accepted/xml", "negative decimal accepted by the XML decoder", rep)
		}
	}
}

// ---------------------------------------------------------------------------------------------

func pkEqual(a, b *gabikeys.PublicKey) string {
	cmp := func(name string, x, y *big.Int) string {
		if (x == nil) != (y == nil) || (x != nil && x.Cmp(y) != 0) {
			return name
		}
		return ""
	}
	for _, d := range []string{cmp("N", a.N, b.N), cmp("Z", a.Z, b.Z), cmp("S", a.S, b.S), cmp("G", a.G, b.G), cmp("H", a.H, b.H)} {
		if d != "" {
			return d
		}
	}
	if len(a.R) != len(b.R) {
		return "len(R)"
	}
	for i := range a.R {
		if a.R[i].Cmp(b.R[i]) != 0 {
			return fmt.Sprintf("R[%d]", i)
		}
	}
	if a.Counter != b.Counter || a.ExpiryDate != b.ExpiryDate || a.EpochLength != b.EpochLength || a.ECDSAString != b.ECDSAString {
		return "counter/expiry/epoch/ecdsa string"
	}
	if (a.ECDSA == nil) != (b.ECDSA == nil) || (a.ECDSA != nil && !a.ECDSA.Equal(b.ECDSA)) {
		return "ECDSA"
	}
	if a.Params != b.Params {
		return "Params"
	}
	return ""
}

func skEqual(a, b *gabikeys.PrivateKey) string {
	for name, p := range map[string][2]*big.Int{"P": {a.P, b.P}, "Q": {a.Q, b.Q}, "PPrime": {a.PPrime, b.PPrime}, "QPrime": {a.QPrime, b.QPrime}, "N": {a.N, b.N}, "Order": {a.Order, b.Order}} {
		if (p[0] == nil) != (p[1] == nil) || (p[0] != nil && p[0].Cmp(p[1]) != 0) {
			return name
		}
	}
	if a.Counter != b.Counter || a.ExpiryDate != b.ExpiryDate || a.ECDSAString != b.ECDSAString {
		return "counter/expiry/ecdsa string"
	}
	if (a.ECDSA == nil) != (b.ECDSA == nil) || (a.ECDSA != nil && !a.ECDSA.Equal(b.ECDSA)) {
		return "ECDSA"
	}
	return ""
}

var elemRe = regexp.MustCompile(`(?s)<([A-Za-z_0-9]+)( [^>]*)?>([^<]*)</([A-Za-z_0-9]+)>`)

func c18Keys(r *mon.Run) {
	dir, err := os.MkdirTemp("", "c18keys")
	if err != nil {
		panic(err)
	}
	defer os.RemoveAll(dir)
	names := []string{"fix1024a", "fix2048a"}
	if r.Thorough() {
		names = append(names, "fix1024b")
	}
	type kp struct {
		name string
		sk   *gabikeys.PrivateKey
		pk   *gabikeys.PublicKey
	}
	var keys []kp
	for _, n := range names {
		k := world.Fixture(n)
		keys = append(keys, kp{n, k.SK, k.PK})
	}
	// 1024-bit keys with 0..20 bases without revocation parts, derived from a fixture (bases are what varies)
	base := world.Fixture("fix1024a")
	for _, nb := range []int{0, 1, 2, 7, 20} {
		R := make([]*big.Int, nb)
		for i := range R {
			R[i] = new(big.Int).Exp(base.PK.S, bi(int64(1000+i)), base.PK.N)
		}
		pk, err := gabikeys.NewPublicKey(base.PK.N, base.PK.Z, base.PK.S, nil, nil, R, "", 3, timeUnix(1_900_000_000))
		if err != nil {
			continue
		}
		sk, err := gabikeys.NewPrivateKey(base.SK.P, base.SK.Q, "", 3, timeUnix(1_900_000_000))
		if err != nil {
			continue
		}
		keys = append(keys, kp{fmt.Sprintf("derived-%dbases-norev", nb), sk, pk})
	}
	for _, k := range keys {
		var pkb, skb bytes.Buffer
		if _, err := k.pk.WriteTo(&pkb); err != nil {
			r.Violation("C18/key-does-not-serialise", "public key WriteTo: "+err.Error(), map[string]any{"key": k.name})
			continue
		}
		if _, err := k.sk.WriteTo(&skb); err != nil {
			r.Violation("C18/key-does-not-serialise", "private key WriteTo: "+err.Error(), map[string]any{"key": k.name})
			continue
		}
		pkFile, skFile := filepath.Join(dir, k.name+".pk.xml"), filepath.Join(dir, k.name+".sk.xml")
		os.WriteFile(pkFile, pkb.Bytes(), 0o600)
		os.WriteFile(skFile, skb.Bytes(), 0o600)
		loadersPK := map[string]func() (*gabikeys.PublicKey, error){
			"NewPublicKeyFromXML":   func() (*gabikeys.PublicKey, error) { return gabikeys.NewPublicKeyFromXML(pkb.String()) },
			"NewPublicKeyFromBytes": func() (*gabikeys.PublicKey, error) { return gabikeys.NewPublicKeyFromBytes(pkb.Bytes()) },
			"NewPublicKeyFromFile":  func() (*gabikeys.PublicKey, error) { return gabikeys.NewPublicKeyFromFile(pkFile) },
		}
		for ln, f := range loadersPK {
			var got *gabikeys.PublicKey
			var err error
			pv, _ := mon.Try(func() { got, err = f() })
			r.Distinct("key-roundtrip", k.name, ln)
			if pv != nil || err != nil {
				r.Eval("key-roundtrip", "error")
				r.Violation("C18/key-roundtrip-fails", fmt.Sprintf("%s fails on a key written by WriteTo: %v %v", ln, err, pv), map[string]any{"key": k.name, "xml": pkb.String()})
				continue
			}
			d := pkEqual(k.pk, got)
			r.Eval("key-roundtrip", outcome(d == "", nil))
			if d != "" {
				r.Violation("C18/key-roundtrip-differs", fmt.Sprintf("%s: field %s differs after the round trip", ln, d), map[string]any{"key": k.name, "xml": pkb.String()})
			}
		}
		for _, demo := range []bool{false, true} {
			for ln, f := range map[string]func() (*gabikeys.PrivateKey, error){
				"NewPrivateKeyFromXML":  func() (*gabikeys.PrivateKey, error) { return gabikeys.NewPrivateKeyFromXML(skb.String(), demo) },
				"NewPrivateKeyFromFile": func() (*gabikeys.PrivateKey, error) { return gabikeys.NewPrivateKeyFromFile(skFile, demo) },
			} {
				var got *gabikeys.PrivateKey
				var err error
				pv, _ := mon.Try(func() { got, err = f() })
				r.Distinct("key-roundtrip", k.name, ln, demo)
				if pv != nil || err != nil {
					r.Eval("key-roundtrip", "error")
					r.Violation("C18/key-roundtrip-fails", fmt.Sprintf("%s(demo=%v) fails on a key written by WriteTo: %v %v", ln, demo, err, pv), map[string]any{"key": k.name})
					continue
				}
				d := skEqual(k.sk, got)
				r.Eval("key-roundtrip", outcome(d == "", nil))
				if d != "" {
					r.Violation("C18/key-roundtrip-differs", fmt.Sprintf("%s: field %s differs after the round trip", ln, d), map[string]any{"key": k.name})
				}
			}
		}
		// malformed documents
		c18MalformedPK(r, k.name, pkb.String(), pkFile+".bad")
		c18MalformedSK(r, k.name, skb.String(), k.sk)
	}
}

type xmlMut struct {
	desc      string
	doc       string
	mustError bool
}

// xmlMutations derives single-element mutations of a key document.
func xmlMutations(doc string, mandatory map[string]bool, numeric map[string]bool) []xmlMut {
	var out []xmlMut
	for _, m := range elemRe.FindAllStringSubmatchIndex(doc, -1) {
		name := doc[m[2]:m[3]]
		if doc[m[8]:m[9]] != name {
			continue
		}
		val := doc[m[6]:m[7]]
		whole := doc[m[0]:m[1]]
		isBase := strings.HasPrefix(name, "Base_")
		replace := func(nv string) string {
			return doc[:m[6]] + nv + doc[m[7]:]
		}
		if mandatory[name] || isBase {
			out = append(out, xmlMut{"delete <" + name + ">", doc[:m[0]] + doc[m[1]:], true})
		} else {
			out = append(out, xmlMut{"delete optional <" + name + ">", doc[:m[0]] + doc[m[1]:], false})
		}
		if numeric[name] || isBase {
			out = append(out,
				xmlMut{"negate <" + name + ">", replace("-" + val), true},
				xmlMut{"hex <" + name + ">", replace("0x1f"), true},
				xmlMut{"float <" + name + ">", replace("1.5"), true},
				xmlMut{"empty <" + name + ">", replace(""), true},
				xmlMut{"blank <" + name + ">", replace("   "), true},
				xmlMut{"text <" + name + ">", replace("twelve"), true},
				xmlMut{"exponent <" + name + ">", replace("1e10"), true},
				xmlMut{"inner space <" + name + ">", replace(val[:len(val)/2] + " " + val[len(val)/2:]), true},
				xmlMut{"plus sign <" + name + "> (same value)", replace("+" + val), false},
			)
		}
		_ = whole
	}
	return out
}

func c18MalformedPK(r *mon.Run, keyName, doc, scratch string) {
	mand := map[string]bool{"n": true, "Z": true, "S": true} // an absent base list reads as zero bases, like num="0"
	num := map[string]bool{"n": true, "Z": true, "S": true, "G": true, "H": true}
	muts := xmlMutations(doc, mand, num)
	// base list count
	numRe := regexp.MustCompile(`<Bases num="(\d+)">`)
	if m := numRe.FindStringSubmatch(doc); m != nil {
		for _, nv := range []string{"0", "1", "999", "-1", "x"} {
			if nv != m[1] {
				muts = append(muts, xmlMut{"Bases num=" + nv, strings.Replace(doc, m[0], `<Bases num="`+nv+`">`, 1), true})
			}
		}
		muts = append(muts, xmlMut{"Bases without num", strings.Replace(doc, m[0], `<Bases>`, 1), m[1] != "0"})
	}
	// unsupported modulus length: n halved / squared
	if m := regexp.MustCompile(`<n>(\d+)</n>`).FindStringSubmatch(doc); m != nil {
		muts = append(muts, xmlMut{"modulus of 512 bits", strings.Replace(doc, m[0], "<n>"+pow2(511).String()+"</n>", 1), true},
			xmlMut{"modulus of 1025 bits", strings.Replace(doc, m[0], "<n>"+add(pow2(1024), bi(1)).String()+"</n>", 1), true},
			xmlMut{"modulus zero", strings.Replace(doc, m[0], "<n>0</n>", 1), true})
		// just below and above every supported length (a length test that rounds to bytes, or compares the wrong way round)
		for _, ln := range []uint{1024, 2048, 4096} {
			for _, dl := range []int{-9, -8, -7, -4, -1, 1, 7, 8} {
				bitsN := uint(int(ln) + dl)
				v := add(pow2(bitsN-1), bi(12345)) // exactly bitsN bits
				muts = append(muts, xmlMut{fmt.Sprintf("modulus of %d bits", bitsN), strings.Replace(doc, m[0], "<n>"+v.String()+"</n>", 1), true})
			}
		}
	}
	muts = append(muts, xmlMut{"empty document", "", true}, xmlMut{"not xml", "hello", true}, xmlMut{"truncated", doc[:len(doc)/2], true},
		xmlMut{"other root element", strings.Replace(strings.Replace(doc, "IssuerPublicKey", "IssuerPrivateKey", -1), "", "", 0), true})
	for _, mu := range muts {
		for ln, f := range map[string]func() (*gabikeys.PublicKey, error){
			"NewPublicKeyFromXML": func() (*gabikeys.PublicKey, error) { return gabikeys.NewPublicKeyFromXML(mu.doc) },
			"NewPublicKeyFromFile": func() (*gabikeys.PublicKey, error) {
				os.WriteFile(scratch, []byte(mu.doc), 0o600)
				return gabikeys.NewPublicKeyFromFile(scratch)
			},
		} {
			var got *gabikeys.PublicKey
			var err error
			pv, stack := mon.Try(func() { got, err = f() })
			r.Distinct("key-malformed", keyName, ln, mu.desc)
			rep := map[string]any{"key": keyName, "loader": ln, "mutation": mu.desc, "document": mu.doc}
			switch {
			case pv != nil:
				r.Eval("key-malformed", "panic")
				r.Violation("C18/key-loader-panics/"+ln, fmt.Sprintf("%s panics on a malformed key document (%s): %v at %s", ln, mu.desc, pv, mon.PanicSite(stack)), rep)
			case err != nil:
				r.Eval("key-malformed", "reject")
			default:
				r.Eval("key-malformed", "accept")
				bad := ""
				switch {
				case got.N == nil || got.Z == nil || got.S == nil:
					bad = "a mandatory element (n, Z, S) is missing"
				case got.N.Sign() <= 0 || got.Z.Sign() < 0 || got.S.Sign() < 0:
					bad = "a mandatory element is negative or zero"
				case got.Params == nil:
					bad = "no system parameters for this modulus length"
				case got.Params.Ln != uint(got.N.BitLen()):
					bad = fmt.Sprintf("system parameters of length %d for a modulus of %d bits", got.Params.Ln, got.N.BitLen())
				}
				for i, b := range got.R {
					if b == nil || b.Sign() < 0 {
						bad = fmt.Sprintf("base %d is missing or negative", i)
					}
				}
				if got.G != nil && got.G.Sign() < 0 || got.H != nil && got.H.Sign() < 0 {
					bad = "G or H negative"
				}
				if bad != "" {
					r.Violation("C18/malformed-public-key-accepted/"+strings.SplitN(mu.desc, " ", 2)[0], fmt.Sprintf("%s silently accepts a malformed key: %s (%s)", ln, bad, mu.desc), rep)
				} else if mu.mustError {
					r.Violation("C18/malformed-public-key-accepted/"+strings.SplitN(mu.desc, " ", 2)[0], fmt.Sprintf("%s returns no error for a malformed key document (%s)", ln, mu.desc), rep)
				}
			}
		}
	}
}

func c18MalformedSK(r *mon.Run, keyName, doc string, sk *gabikeys.PrivateKey) {
	mand := map[string]bool{"p": true, "q": true, "pPrime": true, "qPrime": true}
	muts := xmlMutations(doc, mand, mand)
	sub1 := func(tag string, nv *big.Int) string {
		re := regexp.MustCompile(`<` + tag + `>(\d+)</` + tag + `>`)
		return re.ReplaceAllString(doc, "<"+tag+">"+nv.String()+"</"+tag+">")
	}
	type skMut struct {
		xmlMut
		demoOK bool // acceptable in demo mode (no validation by design)
	}
	var all []skMut
	for _, m := range muts {
		all = append(all, skMut{m, false})
	}
	all = append(all,
		skMut{xmlMut{"pPrime mismatch", sub1("pPrime", add(sk.PPrime, bi(2))), true}, true},
		skMut{xmlMut{"qPrime mismatch", sub1("qPrime", sub(sk.QPrime, bi(2))), true}, true},
		skMut{xmlMut{"p not prime (p+2, p' adjusted)", strings.Replace(sub1("p", add(sk.P, bi(2))), "<pPrime>"+sk.PPrime.String(), "<pPrime>"+add(sk.PPrime, bi(1)).String(), 1), true}, true},
		skMut{xmlMut{"q prime but not safe", func() string {
			q := nextPrime(add(sk.Q, bi(2)))
			for new(big.Int).Rsh(q, 1).Go().ProbablyPrime(20) {
				q = nextPrime(add(q, bi(2)))
			}
			d := sub1("q", q)
			return strings.Replace(d, "<qPrime>"+sk.QPrime.String(), "<qPrime>"+new(big.Int).Rsh(q, 1).String(), 1)
		}(), true}, true},
		skMut{xmlMut{"empty document", "", true}, false}, skMut{xmlMut{"truncated", doc[:len(doc)/2], true}, false},
	)
	for _, mu := range all {
		for _, demo := range []bool{false, true} {
			var got *gabikeys.PrivateKey
			var err error
			pv, stack := mon.Try(func() { got, err = gabikeys.NewPrivateKeyFromXML(mu.doc, demo) })
			r.Distinct("key-malformed", keyName, "sk", mu.desc, demo)
			rep := map[string]any{"key": keyName, "loader": "NewPrivateKeyFromXML", "demo": demo, "mutation": mu.desc}
			switch {
			case pv != nil:
				r.Eval("key-malformed", "panic")
				r.Violation("C18/key-loader-panics/NewPrivateKeyFromXML", fmt.Sprintf("NewPrivateKeyFromXML(demo=%v) panics on a malformed key document (%s): %v at %s", demo, mu.desc, pv, mon.PanicSite(stack)), rep)
			case err != nil:
				r.Eval("key-malformed", "reject")
			default:
				r.Eval("key-malformed", "accept")
				bad := ""
				if got.P == nil || got.Q == nil || got.PPrime == nil || got.QPrime == nil {
					bad = "a mandatory element (p, q, pPrime, qPrime) is missing"
				} else if got.P.Sign() <= 0 || got.Q.Sign() <= 0 || got.PPrime.Sign() <= 0 || got.QPrime.Sign() <= 0 {
					bad = "a mandatory element is negative or zero"
				}
				if bad != "" {
					r.Violation("C18/malformed-private-key-accepted/"+strings.SplitN(mu.desc, " ", 2)[0], fmt.Sprintf("NewPrivateKeyFromXML(demo=%v) silently accepts a malformed key: %s (%s)", demo, bad, mu.desc), rep)
				} else if mu.mustError && !(demo && mu.demoOK) {
					r.Violation("C18/malformed-private-key-accepted/"+strings.SplitN(mu.desc, " ", 2)[0], fmt.Sprintf("NewPrivateKeyFromXML(demo=%v) returns no error for a malformed key document (%s)", demo, mu.desc), rep)
				}
			}
		}
	}
}

// ---------------------------------------------------------------------------------------------

func c18Messages(r *mon.Run) {
	rng := r.Rand("msgs")
	keys := []string{"toy256a", "toy512a"}
	if r.Thorough() {
		keys = append(keys, "fix1024a")
	}
	n := r.Pick(40, 2000)
	table := rangeproof.GenerateSquaresTable(200)
	for i := 0; i < n; i++ {
		key := world.Fixture(keys[i%len(keys)])
		pk := key.PK
		secret := randBig(rng, 250)
		ctx, nonce := freshNonces(rng)
		nonrev := i%2 == 0
		rp := i%3 == 0
		ms := []*big.Int{secret, bi(int64(100 + rng.IntN(100))), bi(int64(30 + rng.IntN(30))), attrValue(rng, rng.IntN(9), pk.Params.Lm)}
		var cred *world.Cred
		var rev *world.Rev
		var err error
		if nonrev {
			rev, _ = world.NewRev(key)
			cred, err = key.SignCredRev(ms, rev)
		} else {
			cred, err = key.SignCred(ms)
		}
		if err != nil {
			panic(err)
		}
		var stm map[int][]*rangeproof.Statement
		if rp {
			st, _ := rangeproof.NewStatement(rangeproof.GreaterOrEqual, bi(18))
			stm = map[int][]*rangeproof.Statement{2: {st, &rangeproof.Statement{Sign: -1, Factor: 1, Bound: bi(70), Splitter: table}}}
		}
		db, err := cred.C.CreateDisclosureProofBuilder([]int{1}, stm, nonrev)
		if err != nil {
			continue
		}
		cb, err := gabi.NewCredentialBuilder(pk, ctx, secret, randBig(rng, 80), nil, []int{1})
		if err != nil {
			continue
		}
		builders := gabi.ProofBuilderList{db}
		pks := []*gabikeys.PublicKey{pk}
		if i%4 == 1 {
			builders = append(builders, cb)
			pks = append(pks, pk)
		}
		list, err := builders.BuildProofList(ctx, nonce, i%5 == 0)
		if err != nil {
			continue
		}
		desc := fmt.Sprintf("list #%d key=%s nonrev=%v range=%v proofs=%d", i, key.Name, nonrev, rp, len(list))
		c18ListTrip(r, desc, list, pks, ctx, nonce, i%5 == 0)
		// deliberately corrupted list must stay rejected after the trip
		bad := cloneList(list)
		if d, ok := bad[0].(*gabi.ProofD); ok {
			d.VResponse = add(d.VResponse, bigOne)
		}
		c18ListTrip(r, desc+" (corrupted v_response)", bad, pks, ctx, nonce, i%5 == 0)
		// fields that are not part of the encoding (filled in by the verifier itself) hold something else in the sender's
		// object: the verdict on the object and on its re-read copy must be the same
		if d0, ok := list[0].(*gabi.ProofD); ok {
			if len(d0.RangeProofs) > 0 {
				alt := cloneList(list)
				for _, l := range alt[0].(*gabi.ProofD).RangeProofs {
					for k, q := range l {
						if k%2 == 0 {
							q.MResponse = add(d0.AResponses[2], bi(5000))
						} else {
							q.MResponse = bi(0)
						}
					}
				}
				c18ListTrip(r, desc+" (range proofs hold another untransmitted m response)", alt, pks, ctx, nonce, i%5 == 0)
			}
			if d0.NonRevocationProof != nil {
				alt := cloneList(list)
				nr := alt[0].(*gabi.ProofD).NonRevocationProof
				nr.Nu = bi(4)
				nr.Challenge = bi(77)
				c18ListTrip(r, desc+" (non-revocation proof holds another untransmitted nu and challenge)", alt, pks, ctx, nonce, i%5 == 0)
			}
		}
		// issuance commitment message
		if i%4 == 1 {
			icm := cb.CreateIssueCommitmentMessage(list)
			b1, err := json.Marshal(icm)
			if err == nil {
				var back gabi.IssueCommitmentMessage
				if err := json.Unmarshal(b1, &back); err != nil {
					r.Violation("C18/message-roundtrip-fails/IssueCommitmentMessage", "does not unmarshal: "+err.Error(), map[string]any{"case": desc})
				} else {
					b2, _ := json.Marshal(&back)
					r.Eval("message", outcome(bytes.Equal(b1, b2), nil))
					if !bytes.Equal(b1, b2) {
						r.Violation("C18/second-marshal-differs/IssueCommitmentMessage", "second marshal is not byte-identical", map[string]any{"case": desc, "first": string(b1), "second": string(b2)})
					}
					ok, _, _ := verifyList(back.Proofs, pks, ctx, nonce, i%5 == 0, nil)
					okOrig, _, _ := verifyList(cloneList(list), pks, ctx, nonce, i%5 == 0, nil)
					if ok != okOrig {
						r.Violation("C18/verdict-changes-after-roundtrip/IssueCommitmentMessage", fmt.Sprintf("verdict %v before, %v after the JSON round trip", okOrig, ok), map[string]any{"case": desc})
					}
				}
			}
		}
		// credential, signature, witness
		c18Generic(r, "CLSignature", desc, cred.C.Signature, &gabi.CLSignature{}, func(x any) bool { return x.(*gabi.CLSignature).Verify(pk, cred.C.Attributes) })
		if nonrev {
			w := cred.C.NonRevocationWitness
			c18Generic(r, "Witness", desc, w, &revocation.Witness{}, func(x any) bool { return x.(*revocation.Witness).Verify(pk) == nil })
			badW := &revocation.Witness{U: add(w.U, bigOne), E: w.E, SignedAccumulator: w.SignedAccumulator}
			c18Generic(r, "Witness", desc+" (corrupted u)", badW, &revocation.Witness{}, func(x any) bool { return x.(*revocation.Witness).Verify(pk) == nil })
			for k := 0; k < 3; k++ {
				rev.RevokeRandom()
			}
			cur := rev.Cur()
			for _, win := range [][2]int{{1, cur}, {2, cur}, {cur, cur}, {cur + 1, cur}, {0, cur}} {
				upd := rev.Update(win[0], win[1])
				verdict := func(x any) bool {
					u := x.(*revocation.Update)
					_, err := u.Verify(pk)
					return err == nil
				}
				c18Update(r, fmt.Sprintf("%s window %v", desc, win), upd, verdict)
				if len(upd.Events) > 0 {
					b := asReceived(upd)
					b.Events[len(b.Events)-1].E = add(b.Events[len(b.Events)-1].E, bi(2))
					c18Update(r, fmt.Sprintf("%s window %v (corrupted event)", desc, win), b, verdict)
				}
			}
			// issuance signature message with witness
			run, err := world.Issue(key, ctx, nonce, randBig(rng, 80), secret, nil, []*big.Int{bi(5), nil, bi(7)}, []int{1}, rev)
			if err == nil {
				b1, err := json.Marshal(run.Sig)
				if err == nil {
					var back gabi.IssueSignatureMessage
					if err := json.Unmarshal(b1, &back); err != nil {
						r.Violation("C18/message-roundtrip-fails/IssueSignatureMessage", "does not unmarshal: "+err.Error(), map[string]any{"case": desc})
					} else {
						b2, _ := json.Marshal(&back)
						r.Eval("message", outcome(bytes.Equal(b1, b2), nil))
						if !bytes.Equal(b1, b2) {
							r.Violation("C18/second-marshal-differs/IssueSignatureMessage", "second marshal is not byte-identical", map[string]any{"case": desc})
						}
						c, err := run.Builder.ConstructCredential(&back, append([]*big.Int{}, run.Attrs...))
						if err != nil || c == nil {
							r.Violation("C18/verdict-changes-after-roundtrip/IssueSignatureMessage", fmt.Sprintf("credential cannot be constructed from the re-read signature message: %v", err), map[string]any{"case": desc})
						}
					}
				}
			}
		}
		if i%10 == 0 {
			r.Sample(map[string]any{"message_case": desc})
		}
	}
	// hashes
	for i := 0; i < 50; i++ {
		ev := &revocation.Event{Index: uint64(i), E: bi(int64(1000 + i)), ParentHash: revocation.Hash(append([]byte{0x12, 0x20}, make([]byte, 32)...))}
		ev.ParentHash[5] = byte(i)
		b1, err := json.Marshal(ev)
		if err != nil {
			continue
		}
		var back revocation.Event
		if err := json.Unmarshal(b1, &back); err != nil || !bytes.Equal(back.ParentHash, ev.ParentHash) || back.Index != ev.Index || back.E.Cmp(ev.E) != 0 {
			r.Violation("C18/message-roundtrip-differs/Event", fmt.Sprintf("event differs after JSON (err=%v)", err), map[string]any{"event": string(b1)})
		}
		r.Eval("message", "accept")
	}
}

func c18ListTrip(r *mon.Run, desc string, list gabi.ProofList, pks []*gabikeys.PublicKey, ctx, nonce *big.Int, issig bool) {
	r.Distinct("message", desc)
	okOrig, _, _ := verifyList(cloneList(list), pks, ctx, nonce, issig, nil)
	b1, err := json.Marshal(list)
	if err != nil {
		r.Violation("C18/message-roundtrip-fails/ProofList", "proof list does not marshal: "+err.Error(), map[string]any{"case": desc})
		return
	}
	var back gabi.ProofList
	if err := json.Unmarshal(b1, &back); err != nil {
		r.Violation("C18/message-roundtrip-fails/ProofList", "proof list does not unmarshal: "+err.Error(), map[string]any{"case": desc, "json": string(b1)})
		return
	}
	b2, err := json.Marshal(back)
	r.Eval("message", outcome(err == nil && bytes.Equal(b1, b2), nil))
	if err != nil || !bytes.Equal(b1, b2) {
		r.Violation("C18/second-marshal-differs/ProofList", "second marshal of a proof list is not byte-identical to the first", map[string]any{"case": desc, "first": string(b1), "second": string(b2)})
	}
	ok, pv, _ := verifyList(back, pks, ctx, nonce, issig, nil)
	if pv != nil || ok != okOrig {
		amb := false
		for _, p := range list {
			if d, isD := p.(*gabi.ProofD); isD && d.NonRevocationProof != nil && countSmall(d) >= 2 {
				amb = true // verdict of such proofs is not deterministic on the unchanged tree (known finding C11)
			}
		}
		if !amb {
			r.Violation("C18/verdict-changes-after-roundtrip/ProofList", fmt.Sprintf("proof list verified=%v before and %v after the JSON round trip (panic=%v)", okOrig, ok, pv), map[string]any{"case": desc, "json": string(b1)})
		}
	}
	// a verifier that forwards the proof re-marshals an object whose non-transmitted fields were filled in during verification:
	// the re-read copy of that encoding must still get the same verdict
	b3, err := json.Marshal(back)
	if err == nil {
		var again gabi.ProofList
		if err := json.Unmarshal(b3, &again); err != nil {
			r.Violation("C18/message-roundtrip-fails/ProofList", "proof list marshalled after verification does not unmarshal: "+err.Error(), map[string]any{"case": desc})
		} else if ok3, _, _ := verifyList(again, pks, ctx, nonce, issig, nil); ok3 != ok {
			r.Violation("C18/verdict-changes-after-roundtrip/ProofList-forwarded", fmt.Sprintf("a verified and forwarded proof list verifies=%v, before forwarding %v", ok3, ok), map[string]any{"case": desc})
		}
	}
}

// c18Generic round-trips a JSON-(un)marshalable object and compares the verdicts.
func c18Generic(r *mon.Run, typ, desc string, obj any, fresh any, verdict func(any) bool) {
	r.Distinct("message", typ, desc)
	var before bool
	pv, _ := mon.Try(func() { before = verdict(obj) })
	if pv != nil {
		return
	}
	b1, err := json.Marshal(obj)
	if err != nil {
		r.Violation("C18/message-roundtrip-fails/"+typ, typ+" does not marshal: "+err.Error(), map[string]any{"case": desc})
		return
	}
	back := reflect.New(reflect.TypeOf(fresh).Elem()).Interface()
	if err := json.Unmarshal(b1, back); err != nil {
		r.Violation("C18/message-roundtrip-fails/"+typ, typ+" does not unmarshal: "+err.Error(), map[string]any{"case": desc, "json": string(b1)})
		return
	}
	b2, _ := json.Marshal(back)
	r.Eval("message", outcome(bytes.Equal(b1, b2), nil))
	if !bytes.Equal(b1, b2) {
		r.Violation("C18/second-marshal-differs/"+typ, "second marshal is not byte-identical", map[string]any{"case": desc, "first": string(b1), "second": string(b2)})
	}
	var after bool
	pv, _ = mon.Try(func() { after = verdict(back) })
	if pv != nil || after != before {
		r.Violation("C18/verdict-changes-after-roundtrip/"+typ, fmt.Sprintf("%s verified=%v before and %v after the JSON round trip (panic=%v)", typ, before, after, pv), map[string]any{"case": desc, "json": string(b1)})
	}
}

func c18Update(r *mon.Run, desc string, upd *revocation.Update, verdict func(any) bool) {
	r.Distinct("message", "Update", desc)
	before := verdict(asReceived(upd))
	for _, codec := range []string{"json", "cbor"} {
		var b1, b2 []byte
		var err error
		back := &revocation.Update{}
		if codec == "json" {
			b1, err = json.Marshal(upd)
			if err == nil {
				err = json.Unmarshal(b1, back)
			}
			if err == nil {
				b2, err = json.Marshal(back)
			}
		} else {
			b1, err = cbor.Marshal(upd, cbor.EncOptions{})
			if err == nil {
				err = cbor.Unmarshal(b1, back)
			}
			if err == nil {
				b2, err = cbor.Marshal(back, cbor.EncOptions{})
			}
		}
		if err != nil {
			r.Violation("C18/message-roundtrip-fails/Update-"+codec, "update does not survive "+codec+": "+err.Error(), map[string]any{"case": desc})
			continue
		}
		r.Eval("message", outcome(bytes.Equal(b1, b2), nil))
		if !bytes.Equal(b1, b2) {
			r.Violation("C18/second-marshal-differs/Update-"+codec, "second marshal is not byte-identical", map[string]any{"case": desc})
		}
		if len(back.Events) != len(upd.Events) {
			r.Violation("C18/message-roundtrip-differs/Update-"+codec, fmt.Sprintf("%d events before, %d after", len(upd.Events), len(back.Events)), map[string]any{"case": desc})
			continue
		}
		for i := range back.Events {
			if back.Events[i].Index != upd.Events[i].Index || back.Events[i].E.Cmp(upd.Events[i].E) != 0 {
				r.Violation("C18/message-roundtrip-differs/Update-"+codec, fmt.Sprintf("event %d differs after the trip", i), map[string]any{"case": desc})
			}
		}
		if after := verdict(back); after != before {
			r.Violation("C18/verdict-changes-after-roundtrip/Update-"+codec, fmt.Sprintf("update verified=%v before and %v after the %s round trip", before, after, codec), map[string]any{"case": desc})
		}
	}
	// event list on its own
	if len(upd.Events) > 0 {
		el := revocation.NewEventList(upd.Events...)
		b1, err := json.Marshal(el)
		if err == nil {
			back := &revocation.EventList{}
			if err := json.Unmarshal(b1, back); err != nil || len(back.Events) != len(upd.Events) {
				r.Violation("C18/message-roundtrip-fails/EventList", fmt.Sprintf("event list does not survive JSON (err=%v)", err), map[string]any{"case": desc})
			} else {
				b2, _ := json.Marshal(back)
				if !bytes.Equal(b1, b2) {
					r.Violation("C18/second-marshal-differs/EventList", "second marshal is not byte-identical", map[string]any{"case": desc})
				}
			}
		}
	}
}

// ---------------------------------------------------------------------------------------------

// c18FileModes runs the umask-dependent part in a child process per umask (the umask is process-wide).
func c18FileModes(r *mon.Run) {
	self, err := os.Executable()
	if err != nil {
		r.Inconclusive("cannot locate own executable for the file-mode child")
		return
	}
	for _, um := range []string{"000", "022", "027", "077"} {
		cmd := exec.Command(self, "c18child", um)
		cmd.Env = os.Environ()
		out, err := cmd.CombinedOutput()
		if err != nil {
			r.Inconclusive(fmt.Sprintf("file-mode child for umask %s failed: %v: %s", um, err, string(out)))
			continue
		}
		for _, line := range strings.Split(string(out), "\n") {
			f := strings.SplitN(line, "\t", 3)
			if len(f) < 3 {
				continue
			}
			r.Distinct("filemode", um, f[1])
			switch f[0] {
			case "OK":
				r.Eval("filemode", "accept")
			case "ERR":
				r.Eval("filemode", "reject")
			case "BAD":
				r.Eval("filemode", "other")
				r.Violation("C18/private-key-file-readable-by-others", fmt.Sprintf("private key file left with group/other permission bits (umask %s, %s): %s", um, f[1], f[2]), map[string]any{"umask": um, "case": f[1], "detail": f[2]})
			}
		}
	}
	if r.Thorough() {
		c18FchmodFault(r, self)
	}
}

// c18FchmodFault (thorough tier): the same child under strace with every fchmod failing. WriteToFile(force=true) must then
// return an error and must not have written the key into a file whose mode it could not tighten.
func c18FchmodFault(r *mon.Run, self string) {
	if _, err := exec.LookPath("strace"); err != nil {
		r.Set("fchmod_fault_injection", "strace not available")
		return
	}
	cmd := exec.Command("strace", "-f", "-qq", "-o", "/dev/null", "-e", "trace=fchmod", "-e", "inject=fchmod:error=EPERM", self, "c18child", "022")
	cmd.Env = append(os.Environ(), "C18_FCHMOD_FAILS=1")
	out, err := cmd.CombinedOutput()
	if err != nil {
		r.Set("fchmod_fault_injection", "strace run failed: "+err.Error()+" "+tail(string(out), 300))
		return
	}
	n := 0
	for _, line := range strings.Split(string(out), "\n") {
		f := strings.SplitN(line, "\t", 3)
		if len(f) < 3 || !strings.Contains(f[1], "force=true") {
			continue
		}
		n++
		r.Distinct("filemode-fchmod-fault", f[1])
		r.Eval("filemode-fchmod-fault", map[string]string{"OK": "accept", "ERR": "reject", "BAD": "other"}[f[0]])
		if f[0] == "BAD" || (f[0] == "ERR" && strings.Contains(f[2], "key_in_file=true") && !strings.Contains(f[2], "mode 600")) {
			r.Violation("C18/private-key-written-although-fchmod-failed", "with fchmod failing, the private key ended up in a file with group/other permission bits ("+f[1]+"): "+f[2], map[string]any{"case": f[1], "detail": f[2]})
		}
	}
	r.Set("fchmod_fault_injection", fmt.Sprintf("%d overwrite cases with fchmod failing (strace inject)", n))
}

// C18Child is the entry point of the file-mode child process.
func C18Child(umask string) {
	var um int
	fmt.Sscanf(umask, "%o", &um)
	syscall.Umask(um)
	key := world.Fixture("toy256a")
	var ref bytes.Buffer
	key.SK.WriteTo(&ref)
	dir, err := os.MkdirTemp("", "c18mode")
	if err != nil {
		fmt.Println("FATAL", err)
		os.Exit(2)
	}
	defer os.RemoveAll(dir)
	states := []string{"absent", "0644", "0666", "0400", "symlink", "dangling-symlink", "0777"}
	n := 0
	for _, st := range states {
		for _, force := range []bool{false, true} {
			n++
			path := filepath.Join(dir, fmt.Sprintf("k%d.xml", n))
			target := path
			switch st {
			case "absent":
			case "symlink":
				target = path + ".target"
				os.WriteFile(target, []byte("old"), 0o644)
				os.Chmod(target, 0o644)
				os.Symlink(target, path)
			case "dangling-symlink":
				target = path + ".target"
				os.Symlink(target, path)
			default:
				var m uint32
				fmt.Sscanf(st, "%o", &m)
				os.WriteFile(path, []byte("old content"), 0o600)
				os.Chmod(path, os.FileMode(m))
			}
			_, werr := key.SK.WriteToFile(path, force)
			desc := fmt.Sprintf("prior=%s force=%v", st, force)
			fi, serr := os.Stat(target)
			content, _ := os.ReadFile(target)
			hasKey := bytes.Contains(content, []byte("IssuerPrivateKey"))
			switch {
			case serr != nil && werr != nil:
				fmt.Printf("ERR\t%s\twrite refused: %v\n", desc, werr)
			case serr != nil:
				fmt.Printf("BAD\t%s\tWriteToFile succeeded but the file does not exist\n", desc)
			case (werr == nil || hasKey) && fi.Mode().Perm()&0o077 != 0:
				fmt.Printf("BAD\t%s\tmode %o err=%v key_in_file=%v\n", desc, fi.Mode().Perm(), werr, hasKey)
			case werr == nil && !bytes.Equal(content, ref.Bytes()):
				fmt.Printf("BAD\t%s\tWriteToFile succeeded but the file content is not the key\n", desc)
			case werr == nil:
				fmt.Printf("OK\t%s\tmode %o\n", desc, fi.Mode().Perm())
			default:
				fmt.Printf("ERR\t%s\t%v (file mode %o, key_in_file=%v)\n", desc, werr, fi.Mode().Perm(), hasKey)
			}
		}
	}
}
