package props

import (
	"sync/atomic"
	"fmt"
	"math/rand/v2"
	"runtime"

	"github.com/privacybydesign/gabi"
	"github.com/privacybydesign/gabi/big"
	"github.com/privacybydesign/gabi/gabikeys"
	"github.com/privacybydesign/gabi/rangeproof"

	"verifharness/mon"
	"verifharness/world"
)

func init() {
	Registry["C02"] = &Check{
		Level: "exploration",
		Rule: "cases = (list shape: 1..4 builders, each disclosure or issuance, key assignment over 1..3 keys, non-revocation/range flags) x (session-tuple mutation: context/nonce bit flips, +-1, swap, zero, random; flag flip; " +
			"every permutation; every proper sub-list and the empty list; every single duplication; every key substitution; every splice with a second session; member proofs verified alone); " +
			"non-trivial = the mutated tuple differs from the original (checked by deep comparison) and the honest list was accepted under the original tuple; distinct by (shape, mutation) hash; oracle: no mutated tuple is accepted",
		Run: runC02,
	}
}

// session is one honest proof list with the tuple it was made for.
type session struct {
	list  gabi.ProofList
	pks   []*gabikeys.PublicKey
	ctx   *big.Int
	nonce *big.Int
	issig bool
	shape string
}

type c02slot struct {
	issuance bool
	key      *world.Key
	nonrev   bool
	rng      bool
	cred     *world.Cred
}

// c02Build builds an honest list for the slots (fresh builders each call).
func c02Build(jr *rand.Rand, slots []*c02slot, secret *big.Int, issig bool, shape string) (*session, error) {
	ctx, nonce := freshNonces(jr)
	builders, pks, err := c02Builders(jr, slots, secret, ctx)
	if err != nil {
		return nil, err
	}
	list, err := builders.BuildProofList(ctx, nonce, issig)
	if err != nil {
		return nil, err
	}
	return &session{list: list, pks: pks, ctx: ctx, nonce: nonce, issig: issig, shape: shape}, nil
}

// replayBuilder stands for a proof recorded in another session: it contributes that proof's own challenge
// contributions to the new session's challenge and "responds" with the recorded proof unchanged. A holder who builds
// the other members honestly around it obtains a list whose challenge really covers the recorded proof.
type replayBuilder struct {
	proof gabi.Proof
	pk    *gabikeys.PublicKey
}

func (b *replayBuilder) Commit(map[string]*big.Int) ([]*big.Int, error) {
	return b.proof.ChallengeContribution(b.pk)
}
func (b *replayBuilder) CreateProof(*big.Int) gabi.Proof            { return b.proof }
func (b *replayBuilder) PublicKey() *gabikeys.PublicKey             { return b.pk }
func (b *replayBuilder) SetProofPCommitment(*gabi.ProofPCommitment) {}

// c02Adaptive builds fresh lists in a third session in which one member is a proof recorded in session rec.
func c02Adaptive(r *mon.Run, jr *rand.Rand, slots []*c02slot, secret *big.Int, rec *session) {
	n := len(slots)
	for pos := 0; pos <= n; pos++ {
		for from := 0; from < n; from++ {
			if pos < n && from != pos && jr.IntN(3) != 0 {
				continue
			}
			for _, issig := range []bool{rec.issig, !rec.issig} {
				ctx, nonce := freshNonces(jr)
				builders, pks, err := c02Builders(jr, slots, secret, ctx)
				if err != nil {
					r.Eval("adaptive-splice", "error")
					continue
				}
				rb := &replayBuilder{proof: cloneList(gabi.ProofList{rec.list[from]})[0], pk: rec.pks[from]}
				desc := fmt.Sprintf("member %d of a recorded session placed at position %d", from, pos)
				if pos == n {
					builders, pks = append(builders, rb), append(pks, rec.pks[from])
					desc = fmt.Sprintf("member %d of a recorded session appended", from)
				} else {
					builders[pos], pks[pos] = rb, rec.pks[from]
				}
				var list gabi.ProofList
				pvb, _ := mon.Try(func() { list, err = builders.BuildProofList(ctx, nonce, issig) })
				if pvb != nil || err != nil {
					r.Eval("adaptive-splice", "error")
					continue
				}
				r.Distinct(rec.shape, "adaptive-splice", desc, issig)
				ok, pv, _ := c02Verify(cloneList(list), pks, ctx, nonce, issig, nil)
				r.Eval("adaptive-splice", outcome(ok, pv))
				if ok {
					r.Violation("C02/recorded-proof-accepted-in-new-session", fmt.Sprintf("a list built around a proof recorded in another session verifies (%s, issig=%v; %s)", desc, issig, rec.shape),
						map[string]any{"shape": rec.shape, "desc": desc, "list": dumpList(list), "context": dumpInt(ctx), "nonce": dumpInt(nonce), "issig": issig,
							"recorded_context": dumpInt(rec.ctx), "recorded_nonce": dumpInt(rec.nonce)})
				}
			}
		}
	}
}

func c02Builders(jr *rand.Rand, slots []*c02slot, secret, ctx *big.Int) (gabi.ProofBuilderList, []*gabikeys.PublicKey, error) {
	var builders gabi.ProofBuilderList
	var pks []*gabikeys.PublicKey
	for _, s := range slots {
		pks = append(pks, s.key.PK)
		if s.issuance {
			b, err := gabi.NewCredentialBuilder(s.key.PK, ctx, secret, randBig(jr, 80), nil, nil)
			if err != nil {
				return nil, nil, err
			}
			builders = append(builders, b)
			continue
		}
		var stm map[int][]*rangeproof.Statement
		if s.rng {
			st, err := rangeproof.NewStatement(rangeproof.GreaterOrEqual, bi(18))
			if err != nil {
				return nil, nil, err
			}
			stm = map[int][]*rangeproof.Statement{2: {st}}
		}
		b, err := s.cred.C.CreateDisclosureProofBuilder([]int{1}, stm, s.nonrev)
		if err != nil {
			return nil, nil, err
		}
		builders = append(builders, b)
	}
	return builders, pks, nil
}

func runC02(r *mon.Run) {
	keyNames := []string{"toy256a", "toy256b", "toy512a"}
	if r.Thorough() {
		keyNames = []string{"toy256a", "toy256b", "toy512a", "fix1024a", "fix1024b", "fix2048a"}
	}
	type job struct {
		n     int
		types int // bitmask: 1 = issuance
		seed  uint64
		issig bool
		keys  []string
	}
	rng := r.Rand("jobs")
	var jobs []job
	maxN := r.Pick(3, 4)
	_ = maxN
	maxN = 4
	reps := r.Pick(3, 12)
	for rep := 0; rep < reps; rep++ {
		for n := 1; n <= maxN; n++ {
			for types := 0; types < 1<<n; types++ {
				ks := make([]string, n)
				nk := 1 + rng.IntN(3)
				for i := range ks {
					ks[i] = keyNames[(rng.IntN(nk)+rep)%len(keyNames)]
				}
				jobs = append(jobs, job{n, types, rng.Uint64(), rng.IntN(2) == 0, ks})
			}
		}
	}
	mon.Parallel(len(jobs), runtime.NumCPU(), func(ji int) {
		j := jobs[ji]
		jr := rand.New(rand.NewPCG(j.seed, 2))
		secret := randBig(jr, 255)
		slots := make([]*c02slot, j.n)
		shape := fmt.Sprintf("n=%d types=%b issig=%v keys=%v", j.n, j.types, j.issig, j.keys)
		for i := range slots {
			k := world.Fixture(j.keys[i])
			s := &c02slot{issuance: j.types&(1<<i) != 0, key: k}
			if !s.issuance {
				s.nonrev = jr.IntN(3) == 0
				s.rng = jr.IntN(3) == 0
				ms := []*big.Int{secret, bi(int64(1000 + jr.IntN(1000))), bi(int64(18 + jr.IntN(50))), randBig(jr, 200)}
				var err error
				if s.nonrev {
					rev, e2 := world.NewRev(k)
					if e2 != nil {
						panic(e2)
					}
					s.cred, err = k.SignCredRev(ms, rev)
				} else {
					s.cred, err = k.SignCred(ms)
				}
				if err != nil {
					panic(err)
				}
				shape += fmt.Sprintf(" [%d:nr=%v rp=%v]", i, s.nonrev, s.rng)
			}
			slots[i] = s
		}
		s1, err := c02Build(jr, slots, secret, j.issig, shape)
		if err != nil {
			r.Eval("honest", "error")
			r.Sample(map[string]any{"build_error": err.Error(), "shape": shape})
			return
		}
		s2, err := c02Build(jr, slots, secret, j.issig, shape)
		if err != nil {
			r.Eval("honest", "error")
			return
		}
		c02Session(r, jr, s1, s2)
		c02Adaptive(r, jr, slots, secret, s2)
	})
	r.FloorAccept("honest", 8)
	r.FloorAccept("honest-json", 8)
	for _, f := range []string{"context", "nonce", "issig", "sublist", "member-alone", "adaptive-splice", "contribution-error"} {
		r.FloorFam(f, 8)
	}
	if r.Pick(3, 4) >= 2 {
		r.FloorFam("order", 4)
		r.FloorFam("duplicate", 4)
		r.FloorFam("splice", 4)
		r.FloorFam("key", 4)
	}
}

func c02Session(r *mon.Run, jr *rand.Rand, s, s2 *session) {
	ok, pv, _ := c02Verify(cloneList(s.list), s.pks, s.ctx, s.nonce, s.issig, nil)
	r.Eval("honest", outcome(ok, pv))
	if !ok {
		r.Sample(map[string]any{"honest_rejected": s.shape})
		return
	}
	if rt, err := jsonRoundTripList(s.list); err == nil {
		ok, pv, _ := c02Verify(rt, s.pks, s.ctx, s.nonce, s.issig, nil)
		r.Eval("honest-json", outcome(ok, pv))
	}
	if r.Evals()%40 < 2 {
		r.Sample(map[string]any{"shape": s.shape, "proofs": len(s.list)})
	}
	n := len(s.list)
	all := make([]int, n)
	for i := range all {
		all[i] = i
	}
	// must verifies the list made of elements idx (i<n: proof i of this session, i>=n: proof i-n of session 2) under a
	// tuple that differs from the original. Two passes: "cold" on freshly received copies, and "warm" on objects that were
	// first verified successfully under their own tuple (a verifier re-using decoded proofs), so that state memoised inside
	// proof objects by an earlier verification cannot make a different tuple acceptable.
	must := func(family, desc string, idx []int, pks []*gabikeys.PublicKey, ctx, nonce *big.Int, issig bool) {
		r.Distinct(s.shape, family, desc)
		for _, mode := range []string{"cold", "warm"} {
			b1, b2 := cloneList(s.list), cloneList(s2.list)
			if mode == "warm" {
				ok1, _, _ := c02Verify(b1, s.pks, s.ctx, s.nonce, s.issig, nil)
				ok2, _, _ := c02Verify(b2, s2.pks, s2.ctx, s2.nonce, s2.issig, nil)
				if !ok1 || !ok2 {
					r.Eval("warmup", "reject")
					continue
				}
			}
			list := make(gabi.ProofList, len(idx))
			for k, i := range idx {
				if i < n {
					list[k] = b1[i]
				} else {
					list[k] = b2[i-n]
				}
			}
			ok, pv, stack := c02Verify(list, pks, ctx, nonce, issig, nil)
			if !ok && pv == nil {
				// the refused objects presented once more under the same wrong tuple (a verifier retrying)
				ok, pv, stack = c02Verify(list, pks, ctx, nonce, issig, nil)
				if ok {
					desc += " (accepted at the second attempt on the refused objects)"
				}
			}
			fam := family
			if mode == "warm" {
				fam += "/warm"
			}
			r.Eval(fam, outcome(ok, pv))
			if pv != nil {
				r.PanicSeen(mon.PanicSite(stack))
			}
			if ok {
				r.Violation("C02/accepted-under-changed-"+family+"/"+mode,
					fmt.Sprintf("list made for one session tuple verifies under a different one (%s: %s; %s objects; shape %s)", family, desc, mode, s.shape),
					map[string]any{"shape": s.shape, "mutation": family + ": " + desc, "mode": mode, "elements": idx, "session1": dumpList(s.list), "session2": dumpList(s2.list), "keys": keyNames(pks),
						"orig_context": dumpInt(s.ctx), "orig_nonce": dumpInt(s.nonce), "orig_issig": s.issig,
						"context2": dumpInt(s2.ctx), "nonce2": dumpInt(s2.nonce),
						"context": dumpInt(ctx), "nonce": dumpInt(nonce), "issig": issig})
			}
		}
	}
	// context / nonce mutations
	type mut struct {
		name string
		v    *big.Int
	}
	muts := func(v, other *big.Int, bits int) []mut {
		out := []mut{{"negated", new(big.Int).Neg(v)}, {"+1", add(v, bigOne)}, {"zero", bi(0)}, {"random", randBig(jr, bits)}, {"swapped", cp(other)},
			{"top-bit", new(big.Int).Xor(v, pow2(uint(bits)))}, {"x2", mul(v, bi(2))}}
		if v.Sign() > 0 {
			out = append(out, mut{"-1", sub(v, bigOne)})
		}
		nb := 12
		allBits := r.Thorough() && len(s.list) == 1
		if allBits {
			nb = bits // every single bit for single-proof sessions in the thorough tier
		}
		for k := 0; k < nb; k++ {
			b := k
			if !allBits {
				b = jr.IntN(bits)
			}
			out = append(out, mut{fmt.Sprintf("bit%d", b), new(big.Int).Xor(v, pow2(uint(b)))})
		}
		return out
	}
	for _, m := range muts(s.ctx, s.nonce, 256) {
		if m.v.Cmp(s.ctx) != 0 {
			must("context", m.name, all, s.pks, m.v, s.nonce, s.issig)
		}
	}
	for _, m := range muts(s.nonce, s.ctx, 80) {
		if m.v.Cmp(s.nonce) != 0 {
			must("nonce", m.name, all, s.pks, s.ctx, m.v, s.issig)
		}
	}
	if s.ctx.Cmp(s.nonce) != 0 {
		must("context", "context<->nonce", all, s.pks, s.nonce, s.ctx, s.issig)
	}
	must("issig", "flag flipped", all, s.pks, s.ctx, s.nonce, !s.issig)

	// permutations
	perms := permutations(n)
	for _, p := range perms {
		ident := true
		for i, v := range p {
			if v != i {
				ident = false
			}
		}
		if ident {
			continue
		}
		pk := make([]*gabikeys.PublicKey, n)
		for i, v := range p {
			pk[i] = s.pks[v]
		}
		must("order", fmt.Sprintf("perm %v keys alike", p), p, pk, s.ctx, s.nonce, s.issig)
		must("order", fmt.Sprintf("perm %v keys unchanged", p), p, s.pks, s.ctx, s.nonce, s.issig)
	}
	// sub-lists
	for mask := 0; mask < 1<<n-1; mask++ {
		var pl []int
		var pk []*gabikeys.PublicKey
		for i := 0; i < n; i++ {
			if mask&(1<<i) != 0 {
				pl = append(pl, i)
				pk = append(pk, s.pks[i])
			}
		}
		must("sublist", fmt.Sprintf("mask %b", mask), pl, pk, s.ctx, s.nonce, s.issig)
	}
	must("sublist", "empty list, all keys", []int{}, s.pks, s.ctx, s.nonce, s.issig)
	must("sublist", "empty list, no keys", []int{}, nil, s.ctx, s.nonce, s.issig)
	// duplication
	for i := 0; i < n; i++ {
		for _, at := range []int{i + 1, n} {
			pl := append([]int{}, all[:at]...)
			pl = append(pl, i)
			pl = append(pl, all[at:]...)
			pk := append([]*gabikeys.PublicKey{}, s.pks[:at]...)
			pk = append(pk, s.pks[i])
			pk = append(pk, s.pks[at:]...)
			must("duplicate", fmt.Sprintf("proof %d again at %d", i, at), pl, pk, s.ctx, s.nonce, s.issig)
		}
	}
	// key substitution
	for i := 0; i < n; i++ {
		for _, other := range []string{"toy256a", "toy256b", "toy512a", "toy512b"} {
			ok := world.Fixture(other)
			if ok.PK == s.pks[i] || len(ok.PK.R) < 5 {
				continue
			}
			pk := append([]*gabikeys.PublicKey{}, s.pks...)
			pk[i] = ok.PK
			must("key", fmt.Sprintf("key %d -> %s", i, other), all, pk, s.ctx, s.nonce, s.issig)
		}
	}
	// key list longer or shorter than the proof list: surplus keys (a verifier expecting more credentials than were sent), keys
	// missing at the end, and labels of another length
	for _, extra := range []string{"same as last", "toy256b", "toy512b"} {
		add := s.pks[n-1]
		if extra != "same as last" {
			add = world.Fixture(extra).PK
		}
		for k := 1; k <= 2; k++ {
			pk := append([]*gabikeys.PublicKey{}, s.pks...)
			for j := 0; j < k; j++ {
				pk = append(pk, add)
			}
			must("key", fmt.Sprintf("%d surplus key(s) appended (%s)", k, extra), all, pk, s.ctx, s.nonce, s.issig)
		}
		pk := append([]*gabikeys.PublicKey{add}, s.pks...)
		must("key", fmt.Sprintf("surplus key prepended (%s)", extra), all, pk, s.ctx, s.nonce, s.issig)
	}
	if n > 1 {
		must("key", "last key missing", all, s.pks[:n-1], s.ctx, s.nonce, s.issig)
	}
	// splice with a second session over the same credentials
	for i := 0; i < n; i++ {
		pl := append([]int{}, all...)
		pl[i] = n + i
		must("splice", fmt.Sprintf("position %d from session 2, tuple 1", i), pl, s.pks, s.ctx, s.nonce, s.issig)
		if n > 1 { // for n == 1 the spliced list is exactly session 2
			must("splice", fmt.Sprintf("position %d from session 2, tuple 2", i), pl, s.pks, s2.ctx, s2.nonce, s2.issig)
		}
	}
	must("splice", "whole list of session 1 under tuple 2", all, s.pks, s2.ctx, s2.nonce, s2.issig)
	// a member whose challenge contribution cannot be computed (an index both disclosed and hidden; a response for the secret-key
	// base in m_user_responses) rides along behind/between the honest members with the challenge and the secret-key response
	// copied from a neighbour: it is bound to nothing and must make the list fail, at every position
	for src, p := range s.list {
		var bad gabi.Proof
		switch q := p.(type) {
		case *gabi.ProofD:
			j := cloneD(q)
			for i, v := range j.ADisclosed {
				j.AResponses[i] = cp(v) // index i now in both maps; the disclosed value is free to be anything
				j.ADisclosed[i] = add(v, bi(1000))
				break
			}
			if len(j.ADisclosed) == 0 {
				continue
			}
			bad = j
		case *gabi.ProofU:
			j := cloneU(q)
			if j.MUserResponses == nil {
				j.MUserResponses = map[int]*big.Int{}
			}
			j.MUserResponses[0] = bi(1)
			bad = j
		}
		for pos := 0; pos <= n; pos++ {
			pl := make(gabi.ProofList, 0, n+1)
			pks := make([]*gabikeys.PublicKey, 0, n+1)
			for i := 0; i <= n; i++ {
				if i == pos {
					pl, pks = append(pl, bad), append(pks, s.pks[src])
				}
				if i < n {
					pl, pks = append(pl, cloneList(gabi.ProofList{s.list[i]})[0]), append(pks, s.pks[i])
				}
			}
			desc := fmt.Sprintf("uncomputable copy of member %d inserted at position %d", src, pos)
			r.Distinct(s.shape, "contribution-error", desc)
			ok, pv, _ := c02Verify(cloneList(pl), pks, s.ctx, s.nonce, s.issig, nil)
			r.Eval("contribution-error", outcome(ok, pv))
			if ok {
				r.Violation("C02/unbound-member-accepted", fmt.Sprintf("a list verifies although it contains a member whose challenge contribution cannot be computed (%s; %s)", desc, s.shape),
					map[string]any{"shape": s.shape, "desc": desc, "list": dumpList(pl)})
			}
		}
	}
	// members verified on their own entry points
	for i, p := range s.list {
		switch x := p.(type) {
		case *gabi.ProofD:
			variants := []struct {
				name       string
				ctx, nonce *big.Int
				issig      bool
				neutral    bool
			}{
				{"same tuple", s.ctx, s.nonce, s.issig, n == 1},
				{"flag flipped", s.ctx, s.nonce, !s.issig, false},
				{"nonce+1", s.ctx, add(s.nonce, bigOne), s.issig, false},
				{"context+1", add(s.ctx, bigOne), s.nonce, s.issig, false},
				{"tuple of session 2", s2.ctx, s2.nonce, s2.issig, false},
			}
			for _, v := range variants {
				if v.neutral {
					continue
				}
				r.Distinct(s.shape, "member-alone", i, v.name)
				ok, pv, _ := verifyD(s.pks[i], cloneD(x), v.ctx, v.nonce, v.issig)
				r.Eval("member-alone", outcome(ok, pv))
				if !ok {
					w := cloneList(s.list)
					if okw, _, _ := c02Verify(w, s.pks, s.ctx, s.nonce, s.issig, nil); okw {
						ok, pv, _ = verifyD(s.pks[i], w[i].(*gabi.ProofD), v.ctx, v.nonce, v.issig)
						r.Eval("member-alone/warm", outcome(ok, pv))
					}
				}
				if ok {
					r.Violation("C02/member-verifies-alone", fmt.Sprintf("ProofD %d of a %d-proof list verifies alone under %s (%s)", i, n, v.name, s.shape),
						map[string]any{"shape": s.shape, "proof": dumpD(x), "variant": v.name})
				}
			}
		case *gabi.ProofU:
			variants := []struct {
				name       string
				ctx, nonce *big.Int
				neutral    bool
			}{
				{"same tuple", s.ctx, s.nonce, n == 1 && !s.issig},
				{"nonce+1", s.ctx, add(s.nonce, bigOne), false},
				{"context+1", add(s.ctx, bigOne), s.nonce, false},
				{"tuple of session 2", s2.ctx, s2.nonce, false},
			}
			for _, v := range variants {
				if v.neutral {
					continue
				}
				r.Distinct(s.shape, "member-alone", i, v.name)
				var ok bool
				pv, _ := mon.Try(func() { ok = cloneU(x).Verify(s.pks[i], v.ctx, v.nonce) })
				r.Eval("member-alone", outcome(ok, pv))
				if ok {
					r.Violation("C02/member-verifies-alone", fmt.Sprintf("ProofU %d of a %d-proof list verifies alone under %s (%s)", i, n, v.name, s.shape),
						map[string]any{"shape": s.shape, "proof": dumpU(x), "variant": v.name})
				}
			}
		}
	}
}

func keyNames(pks []*gabikeys.PublicKey) []string {
	out := make([]string, len(pks))
	for i, p := range pks {
		out[i] = p.Issuer
	}
	return out
}

func permutations(n int) [][]int {
	var out [][]int
	var rec func(cur []int, used int)
	rec = func(cur []int, used int) {
		if len(cur) == n {
			out = append(out, append([]int{}, cur...))
			return
		}
		for i := 0; i < n; i++ {
			if used&(1<<i) == 0 {
				rec(append(cur, i), used|1<<i)
			}
		}
	}
	rec(nil, 0)
	return out
}

// c02Verify verifies a list with the label argument in its three "no labels" forms - nil, an empty non-nil slice (what decoding
// "[]" gives) and one empty label per member - on separate copies, and reports acceptance if ANY form accepts: the binding of a
// list to its session must not depend on how the caller spells "no keyshare servers". Calls that pass labels are left alone.
func c02Verify(l gabi.ProofList, pks []*gabikeys.PublicKey, ctx, nonce *big.Int, issig bool, kss []string) (ok bool, pv any, stack string) {
	if kss != nil {
		return verifyList(l, pks, ctx, nonce, issig, kss)
	}
	copies := []gabi.ProofList{cloneList(l), cloneList(l)}
	ok, pv, stack = verifyList(l, pks, ctx, nonce, issig, nil)
	if ok || pv != nil {
		return
	}
	for i, form := range [][]string{{}, make([]string, len(l))} {
		if ok2, pv2, stack2 := verifyList(copies[i], pks, ctx, nonce, issig, form); ok2 || pv2 != nil {
			c02LabelForms.Add(1)
			return ok2, pv2, stack2
		}
	}
	return
}

var c02LabelForms atomic.Int64
