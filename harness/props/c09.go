package props

import (
	"encoding/json"
	"fmt"
	"math/rand/v2"
	"runtime"
	"strings"
	"sync/atomic"

	"github.com/privacybydesign/gabi/big"
	"github.com/privacybydesign/gabi/revocation"

	"verifharness/mon"
	"verifharness/world"
)

func init() {
	Registry["C09"] = &Check{
		Level: "exploration",
		Rule: "histories = R<=4 (quick) / R<=6 (thorough) revocations on a toy key, a witness issued at every accumulator index, seeded choice of which witnesses are revoked at which event; update messages = every contiguous event window [a..b] (a>=0) plus event-less and re-timed (same index, older/newer time) accumulators, " +
			"as fresh objects or as ONE object shared by all witnesses and sequences; for every witness EVERY sequence of <=3 (R<=3: <=4 sampled) updates is applied to the real Witness.Update in lock-step with an abstract model (index, revoked-at); plus random histories up to R=40; " +
			"non-trivial = an update was applied to a witness; distinct by (history, witness, update sequence, sharing mode) hash; oracle after every step: result class equals the model's (advance/no-op/too-new/revoked), index never decreases, a non-revoked witness satisfies u^e=nu (own math/big) for the accumulator it points to, " +
			"a revoked witness never advances to or past its revocation, and after any error the witness is bit-identical to its snapshot",
		Run: runC09,
	}
}

// updSpec describes an update message abstractly.
type updSpec struct {
	a, b   int   // event window [a..b]; a > b means event-less
	retime int64 // 0: the accumulator as published; otherwise re-signed accumulator of index b with time published+retime
}

func (u updSpec) String() string {
	s := fmt.Sprintf("[%d..%d]", u.a, u.b)
	if u.a > u.b {
		s = fmt.Sprintf("[acc %d]", u.b)
	}
	if u.retime != 0 {
		s += fmt.Sprintf("t%+d", u.retime)
	}
	return s
}

// absWitness is the model of a witness.
type absWitness struct {
	index     int
	time      int64
	revokedAt int // event index that removed the value, 0 = never
}

// modelUpdate returns the expected result class and the new abstract state.
func modelUpdate(w absWitness, u updSpec, t int64) (string, absWitness) {
	if u.b == w.index {
		if t <= w.time {
			return "noop", w
		}
		w.time = t
		return "retime", w
	}
	if u.a > u.b { // no events
		return "noop", w
	}
	if u.b <= w.index {
		return "noop", w
	}
	if u.a > w.index+1 {
		return "toonew", w
	}
	if w.revokedAt > w.index && w.revokedAt <= u.b {
		return "revoked", w
	}
	w.index = u.b
	w.time = t
	return "advance", w
}

type c09hist struct {
	rev       *world.Rev
	R         int
	wit       []*revocation.Witness // wit[i] issued at index i (pristine, cloned before use)
	revokedAt []int
	desc      string
	shared    map[updSpec]*revocation.Update
	foreign   *world.Rev
}

func (h *c09hist) build(u updSpec, shared bool) *revocation.Update {
	if shared {
		if x, ok := h.shared[u]; ok {
			return x
		}
	}
	var upd *revocation.Update
	if u.a > u.b {
		upd = h.rev.Update(1, 0)
		upd.SignedAccumulator = h.rev.FreshSAcc(u.b)
	} else {
		upd = h.rev.Update(u.a, u.b)
		if u.b > u.a && (u.a*7+u.b*3)%3 == 0 {
			// the same message assembled by the holder's client from two downloads: the newer part [k..b] as an update, the older
			// events [a..k'] as a list carrying its product (k' = k: the pieces overlap in one event; k' = k-1: adjacent)
			k := u.a + 1 + (u.a+u.b)%(u.b-u.a)
			kk := k - (u.a+2*u.b)%2
			if asm := h.assemble(u.a, kk, k, u.b); asm != nil {
				upd = asm
				asmCount.Add(1)
			}
		}
	}
	if u.retime != 0 {
		s, err := h.rev.Resign(u.b, h.rev.Accs[u.b].Time+u.retime)
		if err != nil {
			panic(err)
		}
		upd.SignedAccumulator = cloneSAccKeep(s)
	}
	if shared {
		h.shared[u] = upd
	}
	return upd
}

var asmCount atomic.Int64

// assemble returns the update [k..b] with the event list [a..kk] (product computed) prepended, or nil if the library refuses.
func (h *c09hist) assemble(a, kk, k, b int) *revocation.Update {
	if kk < a || k > b || kk >= b {
		return nil
	}
	newer := h.rev.Update(k, b)
	var older []*revocation.Event
	for i := a; i <= kk; i++ {
		older = append(older, h.rev.Events[i])
	}
	jb, err := json.Marshal(revocation.NewEventList(older...))
	if err != nil {
		return nil
	}
	el := &revocation.EventList{ComputeProduct: true}
	if json.Unmarshal(jb, el) != nil {
		return nil
	}
	var perr error
	if pv, _ := mon.Try(func() { perr = newer.Prepend(el) }); pv != nil || perr != nil {
		return nil
	}
	if len(newer.Events) != b-a+1 {
		return nil
	}
	return newer
}

func cloneSAccKeep(s *revocation.SignedAccumulator) *revocation.SignedAccumulator {
	acc := *s.Accumulator
	acc.Nu = cp(acc.Nu)
	return &revocation.SignedAccumulator{Data: append([]byte{}, s.Data...), PKCounter: s.PKCounter, Accumulator: &acc}
}

func cloneWitnessState(w *revocation.Witness) *revocation.Witness {
	return &revocation.Witness{U: cp(w.U), E: cp(w.E), SignedAccumulator: cloneSAccKeep(w.SignedAccumulator), Updated: w.Updated}
}

type witSnap struct {
	u, e  string
	data  string
	index uint64
	time  int64
	nu    string
	upd   int64
}

func snapWitness(w *revocation.Witness) witSnap {
	return witSnap{w.U.String(), w.E.String(), string(w.SignedAccumulator.Data), w.SignedAccumulator.Accumulator.Index,
		w.SignedAccumulator.Accumulator.Time, w.SignedAccumulator.Accumulator.Nu.String(), w.Updated.Unix()}
}

func newC09Hist(jr *rand.Rand, key *world.Key, R int) *c09hist {
	rev, err := world.NewRev(key)
	if err != nil {
		panic(err)
	}
	h := &c09hist{rev: rev, R: R, shared: map[updSpec]*revocation.Update{}}
	w0, err := rev.NewWitnessAt(0)
	if err != nil {
		panic(err)
	}
	h.wit = []*revocation.Witness{w0}
	h.revokedAt = []int{0}
	var parts []string
	for j := 1; j <= R; j++ {
		// choose whom event j revokes: another party, or a not yet revoked witness issued before j
		var cands []int
		for i := range h.wit {
			if h.revokedAt[i] == 0 {
				cands = append(cands, i)
			}
		}
		pick := -1
		if len(cands) > 0 && jr.IntN(2) == 0 {
			pick = cands[jr.IntN(len(cands))]
		}
		if pick >= 0 {
			if _, err := rev.Revoke(h.wit[pick].E); err != nil {
				panic(err)
			}
			h.revokedAt[pick] = j
			parts = append(parts, fmt.Sprintf("e%d:w%d", j, pick))
		} else {
			if _, _, err := rev.RevokeRandom(); err != nil {
				panic(err)
			}
			parts = append(parts, fmt.Sprintf("e%d:other", j))
		}
		w, err := rev.NewWitnessAt(j)
		if err != nil {
			panic(err)
		}
		h.wit = append(h.wit, w)
		h.revokedAt = append(h.revokedAt, 0)
	}
	h.desc = fmt.Sprintf("R=%d %s", R, strings.Join(parts, ","))
	// a second history of the same issuer key (another credential type, or a revocation database that was set up again): its
	// messages carry the same valid signatures but do not belong to the witnesses above
	frev, err := world.NewRev(key)
	if err != nil {
		panic(err)
	}
	for j := 1; j <= R+2; j++ {
		if _, _, err := frev.RevokeRandom(); err != nil {
			panic(err)
		}
	}
	h.foreign = frev
	return h
}

func (h *c09hist) specs() []updSpec {
	var out []updSpec
	for b := 0; b <= h.R; b++ {
		out = append(out, updSpec{a: 1, b: b - 1 + 1, retime: 0}) // placeholder replaced below
	}
	out = out[:0]
	for a := 0; a <= h.R; a++ {
		for b := a; b <= h.R; b++ {
			out = append(out, updSpec{a: a, b: b})
		}
	}
	for b := 0; b <= h.R; b++ {
		out = append(out, updSpec{a: b + 1, b: b})             // event-less
		out = append(out, updSpec{a: b + 1, b: b, retime: 5})  // same index, newer time
		out = append(out, updSpec{a: b + 1, b: b, retime: -5}) // same index, older time
	}
	if h.R >= 1 {
		out = append(out, updSpec{a: 1, b: h.R, retime: 3}, updSpec{a: 0, b: h.R, retime: -3})
	}
	return out
}

func runC09(r *mon.Run) {
	key := world.Fixture("toy256a")
	r.Assume("accumulator Time values are set by the harness (monotone per index); the library's time.Now() never enters an oracle")
	rng := r.Rand("hist")
	type job struct {
		R      int
		seed   uint64
		shared bool
		depth  int
		sample int // 0 = exhaustive sequences, else number of sampled sequences per witness
	}
	var jobs []job
	maxR := r.Pick(4, 6)
	for R := 1; R <= maxR; R++ {
		reps := r.Pick(3, 12)
		for rep := 0; rep < reps; rep++ {
			depth, sample := 3, 0
			if R >= 4 {
				depth = 2
			}
			if R >= 5 && !r.Thorough() {
				depth = 2
			}
			jobs = append(jobs, job{R, rng.Uint64(), rep%2 == 0, depth, sample})
			// deeper sampled sequences
			jobs = append(jobs, job{R, rng.Uint64(), rep%2 == 1, 4, r.Pick(300, 3000)})
		}
	}
	for i := 0; i < r.Pick(6, 200); i++ {
		jobs = append(jobs, job{8 + rng.IntN(33), rng.Uint64(), i%2 == 0, 6, r.Pick(60, 300)})
	}
	var exhaustiveDone atomic.Int64
	mon.Parallel(len(jobs), runtime.NumCPU(), func(ji int) {
		j := jobs[ji]
		jr := rand.New(rand.NewPCG(j.seed, 9))
		h := newC09Hist(jr, key, j.R)
		specs := h.specs()
		if j.R > 8 {
			// long histories: sample windows
			jr.Shuffle(len(specs), func(a, b int) { specs[a], specs[b] = specs[b], specs[a] })
			if len(specs) > 60 {
				specs = specs[:60]
			}
		}
		for wi := range h.wit {
			if j.R > 8 && wi%5 != 0 {
				continue
			}
			if j.sample == 0 {
				seq := make([]updSpec, 0, j.depth)
				var rec func(d int)
				rec = func(d int) {
					if d > 0 {
						c09Apply(r, key, h, wi, seq, j.shared)
					}
					if d == j.depth {
						return
					}
					for _, s := range specs {
						seq = append(seq, s)
						rec(d + 1)
						seq = seq[:len(seq)-1]
					}
				}
				rec(0)
			} else {
				for k := 0; k < j.sample; k++ {
					n := 1 + jr.IntN(j.depth)
					seq := make([]updSpec, n)
					for t := range seq {
						seq[t] = specs[jr.IntN(len(specs))]
					}
					c09Apply(r, key, h, wi, seq, j.shared)
				}
			}
		}
		if j.sample == 0 {
			exhaustiveDone.Add(1)
		}
		if ji%7 == 0 {
			r.Sample(map[string]any{"history": h.desc, "shared_update_objects": j.shared, "windows": len(specs), "depth": j.depth, "sampled_sequences_per_witness": j.sample})
		}
	})
	r.Set("histories_with_exhaustive_sequences", exhaustiveDone.Load())
	r.Set("update_messages_assembled_by_prepend", asmCount.Load())
	r.Floor("update messages assembled by Prepend from overlapping pieces", 20, func() int64 { return asmCount.Load() })
	r.Set("exhaustive_scope", "for the listed histories: every witness x every sequence of <=depth update messages over all windows; which witnesses are revoked when is seeded")
	r.Exhaustive(exhaustiveDone.Load() > 0)
	r.FloorFam("step-advance", 1000)
	r.FloorFam("step-revoked", 200)
	r.FloorFam("step-toonew", 200)
	r.FloorFam("step-noop", 1000)
	r.FloorFam("step-retime", 100)
}

// c09Apply applies a sequence of updates to a fresh copy of witness wi, in lock-step with the model.
func c09Apply(r *mon.Run, key *world.Key, h *c09hist, wi int, seq []updSpec, shared bool) {
	// only the last step is new with respect to the prefix already checked by the enumeration, but every step is checked
	w := cloneWitnessState(h.wit[wi])
	abs := absWitness{index: wi, time: h.rev.Accs[wi].Time, revokedAt: h.revokedAt[wi]}
	accTime := func(i int) int64 { return h.rev.Accs[i].Time }
	desc := func() string {
		return fmt.Sprintf("%s | witness@%d revokedAt=%d | seq=%v shared=%v", h.desc, wi, h.revokedAt[wi], seq, shared)
	}
	fail := func(sig, msg string, step int) {
		r.Violation(sig, msg+" ["+desc()+fmt.Sprintf(" step %d]", step), map[string]any{"history": h.desc, "witness_issued_at": wi, "revoked_at": h.revokedAt[wi],
			"sequence": fmt.Sprint(seq), "step": step, "shared_objects": shared, "witness_e": dumpInt(h.wit[wi].E)})
	}
	r.Distinct(h.desc, wi, fmt.Sprint(seq), shared)
	for step, u := range seq {
		upd := h.build(u, shared)
		before := snapWitness(w)
		// the time stamp the message carries when it is shown. (With shared objects the library may have re-pointed the message's
		// accumulator to a newer validly signed one of the same index through a witness that aliases it; what the witness is shown
		// is the object's content at this moment, and that is what the model follows. Index and value are checked below.)
		shownTime := upd.SignedAccumulator.Accumulator.Time
		if int(upd.SignedAccumulator.Accumulator.Index) != u.b {
			fail("C09/shared-update-object-corrupted", fmt.Sprintf("the update object for %s now carries accumulator index %d", u, upd.SignedAccumulator.Accumulator.Index), step)
			return
		}
		if !shared && shownTime != accTime(u.b)+u.retime {
			fail("C09/harness-time-mismatch", "fresh update object does not carry the expected time: harness defect", step)
			return
		}
		var err error
		pv, stack := mon.Try(func() { err = w.Update(key.PK, upd) })
		if pv != nil {
			r.Eval("step-panic", "panic")
			r.PanicSeen(mon.PanicSite(stack))
			fail("C09/update-panics", fmt.Sprintf("Witness.Update panicked: %v", pv), step)
			return
		}
		want, nabs := modelUpdate(abs, u, shownTime)
		after := snapWitness(w)
		got := ""
		switch {
		case err == nil && after.index != before.index:
			got = "advance"
		case err == nil && after == before:
			got = "noop"
		case err == nil:
			got = "retime"
		case err == revocation.ErrorRevoked:
			got = "revoked"
		case strings.Contains(err.Error(), "too new"):
			got = "toonew"
		default:
			got = "error:" + err.Error()
		}
		r.Eval("step-"+want, "accept")
		if got != want {
			sig := "C09/result-differs-from-model/" + want + "-got-" + strings.SplitN(got, ":", 2)[0]
			fail(sig, fmt.Sprintf("update %s on witness at index %d: model says %s, library says %s", u, abs.index, want, got), step)
			return
		}
		// I4: failed update leaves the witness exactly as it was
		if err != nil && after != before {
			fail("C09/failed-update-changed-witness", fmt.Sprintf("update %s returned %q but the witness changed", u, err), step)
			return
		}
		// I1
		if after.index < before.index {
			fail("C09/index-decreased", fmt.Sprintf("update %s moved the witness from index %d back to %d", u, before.index, after.index), step)
			return
		}
		abs = nabs
		if int(after.index) != abs.index {
			fail("C09/index-differs-from-model", fmt.Sprintf("after %s witness index is %d, model %d", u, after.index, abs.index), step)
			return
		}
		if got == "advance" || got == "retime" {
			if after.time != abs.time {
				fail("C09/accumulator-not-newest-shown", fmt.Sprintf("after %s the witness points to an accumulator with time %d, expected %d", u, after.time, abs.time), step)
				return
			}
		}
		// I2 / I3 with own arithmetic against the issuer's published accumulator of that index
		pub := h.rev.Accs[abs.index]
		valid := new(big.Int).Exp(w.U, w.E, key.PK.N).Cmp(pub.Nu) == 0
		if w.SignedAccumulator.Accumulator.Nu.Cmp(pub.Nu) != 0 {
			fail("C09/accumulator-value-differs", fmt.Sprintf("after %s the witness carries an accumulator value that is not the issuer's for index %d", u, abs.index), step)
			return
		}
		revokedNow := h.revokedAt[wi] != 0 && h.revokedAt[wi] <= abs.index
		if revokedNow {
			fail("C09/revoked-witness-advanced", fmt.Sprintf("witness revoked at event %d sits at index %d", h.revokedAt[wi], abs.index), step)
			return
		}
		if !valid {
			fail("C09/witness-invalid-after-update", fmt.Sprintf("after %s (%s) u^e != nu for the accumulator of index %d", u, got, abs.index), step)
			return
		}
		if verr := w.Verify(key.PK); verr != nil {
			fail("C09/witness-verify-fails", fmt.Sprintf("after %s Witness.Verify fails: %v", u, verr), step)
			return
		}
	}
	// finally the witness is shown updates of the other history of the same key that would take it to a higher index (validly
	// signed, proper chains, its value not among their events): they cannot be its updates - the update has to fail and leave
	// the witness exactly as it was (valid where it stood, or still stuck before the event that revoked it)
	if h.foreign != nil {
		top := h.foreign.Cur()
		for _, fb := range []int{abs.index + 1, top} {
			if fb <= abs.index || fb > top {
				continue
			}
			for _, fa := range []int{1, abs.index + 1} {
				if fa > fb || fa < 1 {
					continue
				}
				upd := h.foreign.Update(fa, fb)
				before := snapWitness(w)
				var err error
				pv, _ := mon.Try(func() { err = w.Update(key.PK, upd) })
				after := snapWitness(w)
				r.Eval("step-foreign-history", outcome(err != nil && pv == nil, pv))
				if pv != nil || err == nil || after != before {
					fail("C09/update-of-another-history-applied", fmt.Sprintf("an update [%d..%d] of another history of the same key applied to the witness at index %d: err=%v panic=%v, witness changed=%v (it must fail and leave the witness as it was)", fa, fb, abs.index, err, pv, after != before), len(seq))
					return
				}
			}
		}
	}
}
