package props

import (
	"bytes"
	"encoding/json"
	"fmt"
	"math/rand/v2"
	"runtime"
	"strings"

	"github.com/fxamacker/cbor"
	"github.com/privacybydesign/gabi/big"
	"github.com/privacybydesign/gabi/revocation"

	"verifharness/mon"
	"verifharness/refimpl"
	"verifharness/world"
)

func init() {
	Registry["C10"] = &Check{
		Level: "fault_enumeration",
		Rule: "honest updates of length 0..8 over a revocation history; faults = every single corruption (event value +-1 / other prime / another event's value, index +-1 / 0 / huge, parent hash: each byte flipped, truncated to every prefix, extended, algorithm code -> sha1/sha2-512/identity/unknown, " +
			"valid shorter-digest multihash sharing the prefix, signature and message bytes inside the signed data, key counter, accumulator replaced by an older/newer/foreign validly signed one, event delete/insert/swap/duplicate) and seeded double corruptions, " +
			"in memory on as-received objects (caches empty) and on the JSON and CBOR wire forms; Prepend with honest, overlapping, gapped, corrupted and foreign older lists; every message object is presented twice and to two witnesses (retry on the same object); " +
			"non-trivial = the corrupted message differs from the honest one; distinct by (history, window, operator, transport) hash; oracle = reference authenticity (own ECDSA + hash-chain walk): Update.Verify / Witness.Update / Update.Prepend may succeed only if authentic, " +
			"on rejection witness and message are bit-identical to their snapshots; Hash.Equal must equal bytes.Equal",
		Run: runC10,
	}
}

func cloneEvent(e *revocation.Event) *revocation.Event {
	if e == nil {
		return nil
	}
	return &revocation.Event{Index: e.Index, E: cp(e.E), ParentHash: append(revocation.Hash{}, e.ParentHash...)}
}

// asReceived deep-copies an update with all lazy caches empty.
func asReceived(u *revocation.Update) *revocation.Update {
	out := &revocation.Update{SignedAccumulator: cloneSAcc(u.SignedAccumulator), Events: []*revocation.Event{}}
	for _, e := range u.Events {
		out.Events = append(out.Events, cloneEvent(e))
	}
	return out
}

func snapUpdate(u *revocation.Update) string {
	var sb bytes.Buffer
	if u.SignedAccumulator != nil {
		fmt.Fprintf(&sb, "%x|%d|", u.SignedAccumulator.Data, u.SignedAccumulator.PKCounter)
	}
	for _, e := range u.Events {
		if e == nil {
			sb.WriteString("nil;")
			continue
		}
		fmt.Fprintf(&sb, "%d:%s:%x;", e.Index, dumpInt(e.E), []byte(e.ParentHash))
	}
	return sb.String()
}

func dumpUpdate(u *revocation.Update) map[string]any {
	m := map[string]any{}
	if u.SignedAccumulator != nil {
		m["sacc_data"] = u.SignedAccumulator.Data
		m["sacc_pk"] = u.SignedAccumulator.PKCounter
	}
	var evs []any
	for _, e := range u.Events {
		if e == nil {
			evs = append(evs, nil)
			continue
		}
		evs = append(evs, map[string]any{"i": e.Index, "e": dumpInt(e.E), "parenthash": []byte(e.ParentHash)})
	}
	m["events"] = evs
	return m
}

type c10env struct {
	r       *mon.Run
	key     *world.Key
	rev     *world.Rev
	foreign *world.Rev // another issuer's history
	hist    string
}

// present shows one (possibly corrupted) update object to all entry points, twice, and applies the oracle.
func (x *c10env) present(family, desc string, u *revocation.Update, witAt int) {
	r := x.r
	pk := x.key.PK
	r.Distinct(x.hist, family, desc, witAt)
	fail := func(sig, msg string) {
		r.Violation(sig, msg+fmt.Sprintf(" (%s: %s; %s)", family, desc, x.hist), map[string]any{"family": family, "fault": desc, "history": x.hist, "update": dumpUpdate(u), "witness_at": witAt, "key": x.key.Name})
	}
	_, refErr := refimpl.UpdateAuthentic(pk, u.SignedAccumulator, u.Events)
	authentic := refErr == nil
	snap := snapUpdate(u)
	for attempt := 1; attempt <= 2; attempt++ {
		var acc *revocation.Accumulator
		var err error
		pv, stack := mon.Try(func() { acc, err = u.Verify(pk) })
		if pv != nil {
			r.Eval(family, "panic")
			r.PanicSeen(mon.PanicSite(stack))
			break
		}
		ok := err == nil
		r.Eval(family, outcome(ok, nil))
		if ok && !authentic {
			fail("C10/unauthentic-update-verifies/"+family, fmt.Sprintf("Update.Verify (attempt %d on the same object) accepts an update the reference rejects: %v", attempt, refErr))
			return
		}
		if !ok && authentic {
			fail("C10/authentic-update-rejected", fmt.Sprintf("Update.Verify rejects an authentic update: %v", err))
			return
		}
		if ok && acc != nil {
			racc, _ := refimpl.AccFromSigned(pk, u.SignedAccumulator.Data, u.SignedAccumulator.PKCounter)
			if racc == nil || acc.Index != racc.Index || acc.Time != racc.Time || acc.Nu.Cmp(racc.Nu) != 0 || !bytes.Equal(acc.EventHash, racc.EventHash) {
				fail("C10/returned-accumulator-not-the-signed-one", "Update.Verify returns an accumulator that differs from the signed message content")
				return
			}
		}
		if !ok && snapUpdate(u) != snap {
			fail("C10/rejected-update-object-changed", "a rejected update object was modified by verification")
			return
		}
		if !ok && u.SignedAccumulator != nil && u.SignedAccumulator.Accumulator != nil && !sigValid(x, u) {
			fail("C10/rejected-update-keeps-unauthenticated-accumulator", "after a failed signature check the message object caches an accumulator that was never authenticated")
			return
		}
	}
	// two witnesses, each shown the same object
	for k := 0; k < 2; k++ {
		at := witAt
		if k == 1 && witAt > 0 {
			at = witAt - 1
		}
		w, err := x.rev.NewWitnessAt(at)
		if err != nil {
			panic(err)
		}
		before := snapWitness(w)
		var uerr error
		pv, stack := mon.Try(func() { uerr = w.Update(pk, u) })
		if pv != nil {
			r.Eval(family+"/witness", "panic")
			r.PanicSeen(mon.PanicSite(stack))
			continue
		}
		r.Eval(family+"/witness", outcome(uerr == nil, nil))
		after := snapWitness(w)
		if uerr == nil && !authentic {
			fail("C10/witness-accepts-unauthentic-update/"+family, fmt.Sprintf("Witness.Update succeeds with an update the reference rejects: %v", refErr))
			return
		}
		if uerr != nil && after != before {
			fail("C10/rejected-update-changed-witness", fmt.Sprintf("Witness.Update returned %q but changed the witness", uerr))
			return
		}
		if uerr == nil {
			// whatever the witness now points to must be a validly signed accumulator of this issuer
			if _, e := refimpl.AccFromSigned(pk, w.SignedAccumulator.Data, w.SignedAccumulator.PKCounter); e != nil {
				fail("C10/witness-points-to-unsigned-accumulator", "after a successful update the witness carries an accumulator without a valid signature")
				return
			}
			racc, _ := refimpl.AccFromSigned(pk, w.SignedAccumulator.Data, w.SignedAccumulator.PKCounter)
			if a := w.SignedAccumulator.Accumulator; a == nil || a.Index != racc.Index || a.Nu.Cmp(racc.Nu) != 0 || a.Time != racc.Time {
				fail("C10/witness-accumulator-differs-from-signed-content", "the decoded accumulator of the witness differs from its signed bytes")
				return
			}
		}
	}
}

func sigValid(x *c10env, u *revocation.Update) bool {
	_, err := refimpl.AccFromSigned(x.key.PK, u.SignedAccumulator.Data, u.SignedAccumulator.PKCounter)
	return err == nil
}

func runC10(r *mon.Run) {
	keys := []string{"toy256a"}
	if r.Thorough() {
		keys = []string{"toy256a", "toy256b", "toy512a", "fix1024a"}
	}
	rng := r.Rand("hist")
	type job struct {
		key  string
		seed uint64
	}
	var jobs []job
	for _, k := range keys {
		for i := 0; i < r.Pick(4, 12); i++ {
			jobs = append(jobs, job{k, rng.Uint64()})
		}
	}
	c10HashEqual(r)
	mon.Parallel(len(jobs), runtime.NumCPU(), func(ji int) {
		j := jobs[ji]
		jr := rand.New(rand.NewPCG(j.seed, 10))
		key := world.Fixture(j.key)
		rev, err := world.NewRev(key)
		if err != nil {
			panic(err)
		}
		fkey := world.Fixture("toy256b")
		if fkey == key {
			fkey = world.Fixture("toy256a")
		}
		frev, err := world.NewRev(fkey)
		if err != nil {
			panic(err)
		}
		R := 8 + jr.IntN(3)
		for i := 0; i < R; i++ {
			if _, _, err := rev.RevokeRandom(); err != nil {
				panic(err)
			}
			if _, _, err := frev.RevokeRandom(); err != nil {
				panic(err)
			}
		}
		x := &c10env{r: r, key: key, rev: rev, foreign: frev, hist: fmt.Sprintf("key=%s R=%d job=%d", j.key, R, ji)}
		for length := 0; length <= 8; length++ {
			b := R - jr.IntN(2)
			a := b - length + 1
			if a < 0 {
				continue
			}
			c10Window(x, jr, a, b, ji)
		}
		c10Prepend(x, jr, R)
	})
	r.FloorAccept("honest", 20)
	r.FloorFam("event", 200)
	r.FloorFam("hash", 500)
	r.FloorFam("sacc", 100)
	r.FloorFam("structure", 100)
	r.FloorFam("json", 100)
	r.FloorFam("cbor", 100)
	r.FloorFam("prepend", 50)
	r.FloorFam("hash-equal", 500)
}

func c10HashEqual(r *mon.Run) {
	rng := r.Rand("hasheq")
	for i := 0; i < 2000; i++ {
		n := rng.IntN(40)
		a := make([]byte, n)
		for k := range a {
			a[k] = byte(rng.Uint32())
		}
		var b []byte
		switch rng.IntN(5) {
		case 0:
			b = append([]byte{}, a...)
		case 1:
			b = append([]byte{}, a[:rng.IntN(n+1)]...)
		case 2:
			b = append(append([]byte{}, a...), byte(rng.Uint32()))
		case 3:
			b = append([]byte{}, a...)
			if n > 0 {
				b[rng.IntN(n)] ^= 1
			}
		default:
			b = []byte{}
		}
		for _, p := range [][2][]byte{{a, b}, {b, a}} {
			got := revocation.Hash(p[0]).Equal(revocation.Hash(p[1]))
			want := bytes.Equal(p[0], p[1])
			r.Eval("hash-equal", outcome(got, nil))
			r.Distinct("hasheq", string(p[0]), "|", string(p[1]))
			if got != want {
				r.Violation("C10/hash-equal-differs-from-bytes-equal", fmt.Sprintf("Hash(%x).Equal(%x) = %v", p[0], p[1], got), map[string]any{"a": p[0], "b": p[1]})
			}
		}
	}
}

func mhash(code byte, digest []byte) revocation.Hash {
	return revocation.Hash(append([]byte{code, byte(len(digest))}, digest...))
}

func c10Window(x *c10env, jr *rand.Rand, a, b int, ji int) {
	r := x.r
	honest := x.rev.Update(a, b)
	wa := a - 1
	if wa < 0 {
		wa = 0
	}
	if a > b {
		wa = b
	}
	win := fmt.Sprintf("[%d..%d]", a, b)
	x.present("honest", win, asReceived(honest), wa)
	if ji == 0 {
		r.Sample(map[string]any{"window": win, "events": len(honest.Events), "history": x.hist})
	}
	type op struct {
		fam, name string
		f         func(u *revocation.Update)
	}
	var ops []op
	n := len(honest.Events)
	otherPrime := func() *big.Int {
		w, _ := revocation.RandomWitness(x.key.SK, x.rev.Accs[0])
		return w.E
	}
	for i := 0; i < n; i++ {
		i := i
		ops = append(ops,
			op{"event", fmt.Sprintf("%s e[%d]+1", win, i), func(u *revocation.Update) { u.Events[i].E = add(u.Events[i].E, bigOne) }},
			op{"event", fmt.Sprintf("%s e[%d]-1", win, i), func(u *revocation.Update) { u.Events[i].E = sub(u.Events[i].E, bigOne) }},
			op{"event", fmt.Sprintf("%s e[%d]:=other prime", win, i), func(u *revocation.Update) { u.Events[i].E = otherPrime() }},
			op{"event", fmt.Sprintf("%s e[%d]:=e[%d]", win, i, (i+1)%n), func(u *revocation.Update) { u.Events[i].E = cp(u.Events[(i+1)%n].E) }},
			op{"event", fmt.Sprintf("%s index[%d]+1", win, i), func(u *revocation.Update) { u.Events[i].Index++ }},
			op{"event", fmt.Sprintf("%s index[%d]-1", win, i), func(u *revocation.Update) { u.Events[i].Index-- }},
			op{"event", fmt.Sprintf("%s index[%d]:=0", win, i), func(u *revocation.Update) { u.Events[i].Index = 0 }},
			op{"event", fmt.Sprintf("%s index[%d]:=2^63", win, i), func(u *revocation.Update) { u.Events[i].Index = 1 << 63 }},
			op{"structure", fmt.Sprintf("%s delete event %d", win, i), func(u *revocation.Update) { u.Events = append(u.Events[:i:i], u.Events[i+1:]...) }},
			op{"structure", fmt.Sprintf("%s duplicate event %d", win, i), func(u *revocation.Update) {
				u.Events = append(u.Events[:i+1:i+1], append([]*revocation.Event{cloneEvent(u.Events[i])}, u.Events[i+1:]...)...)
			}},
			op{"structure", fmt.Sprintf("%s insert foreign event after %d", win, i), func(u *revocation.Update) {
				fe := cloneEvent(x.foreign.Events[1])
				fe.Index = u.Events[i].Index + 1
				u.Events = append(u.Events[:i+1:i+1], append([]*revocation.Event{fe}, u.Events[i+1:]...)...)
			}},
			op{"structure", fmt.Sprintf("%s reindex from %d (+1 for the rest)", win, i), func(u *revocation.Update) {
				for k := i; k < len(u.Events); k++ {
					u.Events[k].Index++
				}
			}},
		)
		if i+1 < n {
			ops = append(ops, op{"structure", fmt.Sprintf("%s swap events %d,%d", win, i, i+1), func(u *revocation.Update) { u.Events[i], u.Events[i+1] = u.Events[i+1], u.Events[i] }},
				op{"structure", fmt.Sprintf("%s swap values only %d,%d", win, i, i+1), func(u *revocation.Update) { u.Events[i].E, u.Events[i+1].E = u.Events[i+1].E, u.Events[i].E }})
		}
		// parent hash corruptions (only meaningful for i>0: the first parent hash is outside the verified window by design)
		hl := len(honest.Events[i].ParentHash)
		for bpos := 0; bpos < hl; bpos++ {
			bpos := bpos
			ops = append(ops, op{"hash", fmt.Sprintf("%s parenthash[%d] byte %d flipped", win, i, bpos), func(u *revocation.Update) { u.Events[i].ParentHash[bpos] ^= 0x01 }})
		}
		for l := 0; l < hl; l++ {
			l := l
			ops = append(ops, op{"hash", fmt.Sprintf("%s parenthash[%d] truncated to %d bytes", win, i, l), func(u *revocation.Update) { u.Events[i].ParentHash = u.Events[i].ParentHash[:l] }})
			if l >= 2 && l < hl {
				// well-formed multihash with a shorter digest that is a prefix of the right one
				ops = append(ops, op{"hash", fmt.Sprintf("%s parenthash[%d] valid multihash with %d-byte digest prefix", win, i, l-2), func(u *revocation.Update) {
					u.Events[i].ParentHash = mhash(0x12, u.Events[i].ParentHash[2:l])
				}})
			}
		}
		ops = append(ops,
			op{"hash", fmt.Sprintf("%s parenthash[%d] extended", win, i), func(u *revocation.Update) { u.Events[i].ParentHash = append(u.Events[i].ParentHash, 0) }},
			op{"hash", fmt.Sprintf("%s parenthash[%d] code sha1", win, i), func(u *revocation.Update) { u.Events[i].ParentHash = mhash(0x11, u.Events[i].ParentHash[2:22]) }},
			op{"hash", fmt.Sprintf("%s parenthash[%d] code sha2-512", win, i), func(u *revocation.Update) {
				u.Events[i].ParentHash = mhash(0x13, append(append([]byte{}, u.Events[i].ParentHash[2:]...), u.Events[i].ParentHash[2:]...))
			}},
			op{"hash", fmt.Sprintf("%s parenthash[%d] code identity", win, i), func(u *revocation.Update) { u.Events[i].ParentHash = mhash(0x00, u.Events[i].ParentHash[2:]) }},
			op{"hash", fmt.Sprintf("%s parenthash[%d] code unknown", win, i), func(u *revocation.Update) { u.Events[i].ParentHash[0] = 0x7f }},
			op{"hash", fmt.Sprintf("%s parenthash[%d] nil", win, i), func(u *revocation.Update) { u.Events[i].ParentHash = nil }},
			op{"hash", fmt.Sprintf("%s parenthash[%d] of foreign chain", win, i), func(u *revocation.Update) {
				u.Events[i].ParentHash = append(revocation.Hash{}, x.foreign.Events[2].ParentHash...)
			}},
		)
	}
	// signed accumulator corruptions
	dl := len(honest.SignedAccumulator.Data)
	positions := []int{0, 1, 2, 3, dl / 4, dl / 2, dl/2 + 1, 3 * dl / 4, dl - 3, dl - 2, dl - 1}
	for k := 0; k < 12; k++ {
		positions = append(positions, jr.IntN(dl))
	}
	for _, p := range positions {
		p := p
		ops = append(ops, op{"sacc", fmt.Sprintf("%s signed data byte %d flipped", win, p), func(u *revocation.Update) { u.SignedAccumulator.Data[p] ^= 0x04 }})
	}
	ops = append(ops,
		op{"sacc", win + " signed data truncated", func(u *revocation.Update) { u.SignedAccumulator.Data = u.SignedAccumulator.Data[:dl-1] }},
		op{"sacc", win + " signed data extended", func(u *revocation.Update) { u.SignedAccumulator.Data = append(u.SignedAccumulator.Data, 0) }},
		op{"sacc", win + " signed data empty", func(u *revocation.Update) { u.SignedAccumulator.Data = nil }},
		op{"sacc", win + " key counter +1", func(u *revocation.Update) { u.SignedAccumulator.PKCounter++ }},
		op{"sacc", win + " accumulator of foreign issuer (same index)", func(u *revocation.Update) {
			u.SignedAccumulator = cloneSAcc(x.foreign.SAccs[b])
		}},
		op{"sacc", win + " whole update of foreign issuer", func(u *revocation.Update) { *u = *asReceived(x.foreign.Update(maxInt(a, 0), b)) }},
		op{"sacc", win + " self-signed by foreign key, our content", func(u *revocation.Update) {
			acc := *x.rev.Accs[b]
			s, _ := acc.Sign(x.foreign.Key.SK)
			u.SignedAccumulator = cloneSAcc(s)
		}},
		// the same three after the process has successfully verified the very same signed bytes under the key they were made
		// with (one verifier serving several issuers): what verified for one key has not thereby verified for another
		op{"sacc", win + " accumulator of foreign issuer, verified before under its own key", func(u *revocation.Update) {
			warm := cloneSAcc(x.foreign.SAccs[b])
			_, _ = warm.UnmarshalVerify(x.foreign.Key.PK)
			u.SignedAccumulator = cloneSAcc(x.foreign.SAccs[b])
		}},
		op{"sacc", win + " whole update of foreign issuer, verified before under its own key", func(u *revocation.Update) {
			warm := asReceived(x.foreign.Update(maxInt(a, 0), b))
			_, _ = warm.Verify(x.foreign.Key.PK)
			*u = *asReceived(x.foreign.Update(maxInt(a, 0), b))
		}},
		op{"sacc", win + " self-signed by foreign key, our content, verified before under that key", func(u *revocation.Update) {
			acc := *x.rev.Accs[b]
			s, _ := acc.Sign(x.foreign.Key.SK)
			warm := cloneSAcc(s)
			_, _ = warm.UnmarshalVerify(x.foreign.Key.PK)
			u.SignedAccumulator = cloneSAcc(s)
		}},
	)
	if b >= 1 {
		ops = append(ops, op{"sacc", win + " older validly signed accumulator", func(u *revocation.Update) { u.SignedAccumulator = cloneSAcc(x.rev.SAccs[b-1]) }})
	}
	if b+1 < len(x.rev.SAccs) {
		ops = append(ops, op{"sacc", win + " newer validly signed accumulator", func(u *revocation.Update) { u.SignedAccumulator = cloneSAcc(x.rev.SAccs[b+1]) }})
	}
	ops = append(ops, op{"sacc", win + " re-signed same index other time (authentic)", func(u *revocation.Update) {
		s, _ := x.rev.Resign(b, 1_800_000_000)
		u.SignedAccumulator = cloneSAcc(s)
	}})
	for _, o := range ops {
		u := asReceived(honest)
		pv, _ := mon.Try(func() { o.f(u) })
		if pv != nil {
			continue
		}
		if snapUpdate(u) == snapUpdate(honest) {
			continue // neutral
		}
		x.present(o.fam, o.name, u, wa)
	}
	// seeded double corruptions
	for k := 0; k < 40 && len(ops) > 1; k++ {
		o1, o2 := ops[jr.IntN(len(ops))], ops[jr.IntN(len(ops))]
		u := asReceived(honest)
		pv, _ := mon.Try(func() { o1.f(u); o2.f(u) })
		if pv != nil || snapUpdate(u) == snapUpdate(honest) {
			continue
		}
		x.present("double", o1.name+" & "+o2.name, u, wa)
	}
	// wire forms
	c10Wire(x, jr, honest, win, wa)
}

func maxInt(a, b int) int {
	if a > b {
		return a
	}
	return b
}

// c10Wire corrupts the JSON and CBOR encodings of an update and presents whatever decodes.
func c10Wire(x *c10env, jr *rand.Rand, honest *revocation.Update, win string, wa int) {
	r := x.r
	jb, err := json.Marshal(honest)
	if err != nil {
		return
	}
	cb, err := cbor.Marshal(honest, cbor.EncOptions{})
	if err != nil {
		return
	}
	// honest round trips
	var uj, uc revocation.Update
	if json.Unmarshal(jb, &uj) == nil {
		x.present("honest", win+" via JSON", &uj, wa)
	}
	if cbor.Unmarshal(cb, &uc) == nil {
		x.present("honest", win+" via CBOR", &uc, wa)
	}
	// structural JSON corruptions
	tree := decodeTree(jb)
	var muts []jmut
	walk(tree, nil, func(p jpath, v any) {
		if len(p) == 0 {
			return
		}
		ps := p.String()
		muts = append(muts, jmut{"delete " + ps, "", marshalTree(setAt(tree, p, nil, true))})
		switch xv := v.(type) {
		case string:
			if len(xv) > 4 {
				b := []byte(xv)
				i := jr.IntN(len(b))
				if b[i] == 'A' {
					b[i] = 'B'
				} else {
					b[i] = 'A'
				}
				muts = append(muts, jmut{"char " + ps, "", marshalTree(setAt(tree, p, string(b), false))})
				muts = append(muts, jmut{"cut " + ps, "", marshalTree(setAt(tree, p, xv[:len(xv)-4], false))})
			}
		case json.Number:
			for _, nv := range []string{"0", "1", "2", "18446744073709551615"} {
				if nv != string(xv) {
					muts = append(muts, jmut{"number " + ps + "->" + nv, "", marshalTree(setAt(tree, p, json.Number(nv), false))})
				}
			}
		case []any:
			if len(xv) > 1 {
				sw := deepCopyJSON(xv).([]any)
				sw[0], sw[1] = sw[1], sw[0]
				muts = append(muts, jmut{"swap first two of " + ps, "", marshalTree(setAt(tree, p, sw, false))})
				muts = append(muts, jmut{"drop last of " + ps, "", marshalTree(setAt(tree, p, deepCopyJSON(xv[:len(xv)-1]), false))})
				muts = append(muts, jmut{"duplicate last of " + ps, "", marshalTree(setAt(tree, p, append(deepCopyJSON(xv).([]any), xv[len(xv)-1]), false))})
			}
		}
	})
	for _, m := range muts {
		var u revocation.Update
		var derr error
		pv, _ := mon.Try(func() { derr = json.Unmarshal(m.doc, &u) })
		if pv != nil || derr != nil || u.SignedAccumulator == nil {
			r.Eval("json-decode", "reject")
			continue
		}
		x.present("json", win+" "+m.desc, &u, wa)
	}
	// byte-level CBOR corruptions
	for k := 0; k < 120; k++ {
		b := append([]byte{}, cb...)
		switch jr.IntN(3) {
		case 0:
			b[jr.IntN(len(b))] ^= 1 << uint(jr.IntN(8))
		case 1:
			i := jr.IntN(len(b))
			b = append(b[:i], b[i+1:]...)
		case 2:
			i := jr.IntN(len(b))
			b = append(b[:i], append([]byte{byte(jr.Uint32())}, b[i:]...)...)
		}
		var u revocation.Update
		var derr error
		pv, _ := mon.Try(func() { derr = cbor.Unmarshal(b, &u) })
		if pv != nil || derr != nil || u.SignedAccumulator == nil {
			r.Eval("cbor-decode", "reject")
			continue
		}
		x.present("cbor", fmt.Sprintf("%s bytes #%d", win, k), &u, wa)
	}
}

// c10Prepend: older events prepended to an update.
func c10Prepend(x *c10env, jr *rand.Rand, R int) {
	r := x.r
	pk := x.key.PK
	// applyFresh applies update u (events [first..last]) to a fresh, never revoked witness issued at index first-1 and
	// checks against the ledger that the witness arrives at accumulator `last` and satisfies u^e = nu there.
	applyFresh := func(when string, u *revocation.Update, first, last int, desc string) bool {
		w, err := x.rev.NewWitnessAt(first - 1)
		if err != nil {
			return false
		}
		var uerr error
		pv, stack := mon.Try(func() { uerr = w.Update(pk, u) })
		r.Eval("prepend-then-apply", outcome(uerr == nil && pv == nil, pv))
		if pv != nil {
			r.PanicSeen(mon.PanicSite(stack))
			return false
		}
		acc := x.rev.Accs[last]
		good := uerr == nil && w.SignedAccumulator != nil && w.SignedAccumulator.Accumulator != nil &&
			w.SignedAccumulator.Accumulator.Index == acc.Index && new(big.Int).Exp(w.U, w.E, pk.N).Cmp(acc.Nu) == 0
		if !good {
			r.Violation("C10/authentic-update-unusable-"+strings.ReplaceAll(when, " ", "-"), fmt.Sprintf("an authentic update applied to a fresh non-revoked witness %s fails: err=%v (%s)", when, uerr, desc),
				map[string]any{"desc": desc, "history": x.hist, "when": when, "update": dumpUpdate(u)})
		}
		return good
	}
	for trial := 0; trial < 60; trial++ {
		b := R
		a := 2 + jr.IntN(R-2) // update holds [a..b]
		base := x.rev.Update(a, b)
		if _, err := base.Verify(pk); err != nil {
			continue
		}
		// older list [lo..hi]
		lo := jr.IntN(a)
		hi := lo + jr.IntN(R-lo+1)
		if hi > R {
			hi = R
		}
		older := x.rev.Update(lo, hi).Events
		desc := fmt.Sprintf("update[%d..%d] prepend [%d..%d]", a, b, lo, hi)
		kind := jr.IntN(6)
		switch kind {
		case 1:
			if len(older) > 0 {
				older[jr.IntN(len(older))].E = add(older[0].E, bi(2))
				desc += " value corrupted"
			}
		case 2:
			if len(older) > 1 {
				i := 1 + jr.IntN(len(older)-1)
				older[i].ParentHash[5] ^= 1
				desc += " hash corrupted"
			}
		case 3:
			older = x.foreign.Update(lo, minInt(hi, len(x.foreign.Events)-1)).Events
			desc += " foreign list"
		case 4:
			if len(older) > 1 {
				older = append(older[:1], older[2:]...)
				desc += " gap"
			}
		}
		// the receiving update may have been used before (its cached product then exists and must survive a refused prepend)
		used := jr.IntN(2) == 0
		if used {
			if !applyFresh("before the prepend", base, a, b, desc) {
				continue
			}
			desc += " (update used before)"
		}
		var el *revocation.EventList
		via := "memory"
		switch jr.IntN(4) {
		case 0:
			el = revocation.NewEventList(older...)
		case 1, 2:
			via = "json"
			jb, err := json.Marshal(revocation.NewEventList(older...))
			if err != nil {
				continue
			}
			el = &revocation.EventList{}
			if jr.IntN(2) == 0 {
				via = "json with product"
				el.ComputeProduct = true
			}
			if json.Unmarshal(jb, el) != nil {
				continue
			}
		case 3:
			via = "flattened json lists with product"
			if len(older) < 2 {
				continue
			}
			cut := 1 + jr.IntN(len(older)-1)
			var parts []*revocation.EventList
			for _, seg := range [][]*revocation.Event{older[:cut], older[cut:]} {
				jb, err := json.Marshal(revocation.NewEventList(seg...))
				if err != nil {
					continue
				}
				pe := &revocation.EventList{ComputeProduct: true}
				if json.Unmarshal(jb, pe) != nil {
					continue
				}
				parts = append(parts, pe)
			}
			if len(parts) != 2 {
				continue
			}
			var ferr error
			if pvf, _ := mon.Try(func() { el, ferr = revocation.FlattenEventLists(parts) }); pvf != nil || ferr != nil {
				continue
			}
		}
		desc += " via " + via
		before := snapUpdate(base)
		var perr error
		pv, stack := mon.Try(func() { perr = base.Prepend(el) })
		r.Distinct(x.hist, "prepend", desc)
		if pv != nil {
			r.Eval("prepend", "panic")
			r.PanicSeen(mon.PanicSite(stack))
			continue
		}
		r.Eval("prepend", outcome(perr == nil, nil))
		after := snapUpdate(base)
		if perr != nil {
			if after != before {
				r.Violation("C10/failed-prepend-changed-update", "Prepend returned an error but changed the update ("+desc+")", map[string]any{"desc": desc, "history": x.hist})
			}
			// ... nor may it have changed what the update does: a witness standing directly before its first event
			// must still be brought to the update's accumulator
			applyFresh("after a refused prepend", base, a, b, desc)
			continue
		}
		if _, rerr := refimpl.UpdateAuthentic(pk, base.SignedAccumulator, base.Events); rerr != nil {
			r.Violation("C10/prepend-produced-unauthentic-update", fmt.Sprintf("Prepend succeeded but the merged update is not authentic: %v (%s)", rerr, desc),
				map[string]any{"desc": desc, "history": x.hist, "merged": dumpUpdate(base)})
			continue
		}
		if len(base.Events) > 0 && base.Events[0].Index >= 1 {
			applyFresh("after an accepted prepend", base, int(base.Events[0].Index), b, desc)
		}
	}
}

func minInt(a, b int) int {
	if a < b {
		return a
	}
	return b
}
