package props

import (
	"fmt"
	"math/rand/v2"
	"runtime"
	"strings"

	"github.com/privacybydesign/gabi"
	"github.com/privacybydesign/gabi/big"
	"github.com/privacybydesign/gabi/gabikeys"
	"github.com/privacybydesign/gabi/revocation"

	"verifharness/mon"
	"verifharness/refimpl"
	"verifharness/world"
)

func init() {
	Registry["C06"] = &Check{
		Level: "fault_enumeration",
		Rule: "honest configurations = (key, attribute count, EVERY subset of random-blind indices for <=4(5) attributes, keyshare on/off, witness on/off): run must succeed and the credential must satisfy the reference CL equation over (secret, attributes), blind attributes = issuer share + value in [0,2^(Lm-1)), witness valid; " +
			"faults = every single-field alteration (+1, other-run value, zero, +ord where meaningful) and cross-run substitution of IssueCommitmentMessage/ProofU, issuer inputs, IssueSignatureMessage/ProofS/Signature/MIssuer/Witness, nonces and context; " +
			"non-trivial = the receiving function was entered with a message differing from the honest one; distinct by (config, message, field, operator) hash; oracle = end-to-end reference equivalence: a credential may come out of ConstructCredential, and a commitment may pass issuer-side verification, only if the independent reference checks hold on exactly what was delivered",
		Run: runC06,
	}
}

type c06cfg struct {
	key     string
	nAttr   int
	blind   []int
	kss     bool
	witness bool
	seed    uint64
}

func (c c06cfg) String() string {
	return fmt.Sprintf("key=%s n=%d blind=%v kss=%v witness=%v", c.key, c.nAttr, c.blind, c.kss, c.witness)
}

func cloneSig(s *gabi.CLSignature) *gabi.CLSignature {
	if s == nil {
		return nil
	}
	return &gabi.CLSignature{A: cp(s.A), E: cp(s.E), V: cp(s.V), KeyshareP: cp(s.KeyshareP)}
}

func cloneWitness(w *revocation.Witness) *revocation.Witness {
	if w == nil {
		return nil
	}
	return &revocation.Witness{U: cp(w.U), E: cp(w.E), SignedAccumulator: cloneSAcc(w.SignedAccumulator), Updated: w.Updated}
}

func cloneISM(m *gabi.IssueSignatureMessage) *gabi.IssueSignatureMessage {
	out := &gabi.IssueSignatureMessage{Signature: cloneSig(m.Signature), NonRevocationWitness: cloneWitness(m.NonRevocationWitness), MIssuer: cloneMap(m.MIssuer)}
	if m.Proof != nil {
		out.Proof = &gabi.ProofS{C: cp(m.Proof.C), EResponse: cp(m.Proof.EResponse)}
	}
	return out
}

func dumpISMSafe(m *gabi.IssueSignatureMessage) (out map[string]any) {
	defer func() {
		if recover() != nil {
			out = map[string]any{"note": "message with missing fields"}
		}
	}()
	return dumpISM(m)
}

func dumpISM(m *gabi.IssueSignatureMessage) map[string]any {
	out := map[string]any{"m_issuer": dumpMap(m.MIssuer)}
	if m.Proof != nil {
		out["proof"] = map[string]string{"c": dumpInt(m.Proof.C), "e_response": dumpInt(m.Proof.EResponse)}
	}
	if m.Signature != nil {
		out["signature"] = map[string]string{"A": dumpInt(m.Signature.A), "e": dumpInt(m.Signature.E), "v": dumpInt(m.Signature.V)}
	}
	if w := m.NonRevocationWitness; w != nil {
		ww := map[string]any{"u": dumpInt(w.U), "e": dumpInt(w.E)}
		if w.SignedAccumulator != nil {
			ww["sacc_data"] = w.SignedAccumulator.Data
			ww["sacc_pk"] = w.SignedAccumulator.PKCounter
		}
		out["nonrev"] = ww
	}
	return out
}

// c06run is one honest protocol run kept for fault injection.
type c06run struct {
	cfg    c06cfg
	key    *world.Key
	kssSt  *kssState
	run    *world.IssueRun
	rev    *world.Rev
	total  *big.Int // secret the credential is signed over at index 0 (user + kss share)
	commit *gabi.IssueCommitmentMessage
}

func c06Honest(r *mon.Run, cfg c06cfg, jr *rand.Rand) (*c06run, error) {
	key := world.Fixture(cfg.key)
	pk := key.PK
	ctx, n1 := freshNonces(jr)
	n2 := randBig(jr, 80)
	secret := randBig(jr, 254)
	attrs := make([]*big.Int, cfg.nAttr)
	isBlind := map[int]bool{}
	for _, b := range cfg.blind {
		isBlind[b] = true
	}
	for i := range attrs {
		if !isBlind[i] {
			attrs[i] = attrValue(jr, jr.IntN(9), pk.Params.Lm)
		}
	}
	out := &c06run{cfg: cfg, key: key, total: secret}
	var kssP *big.Int
	if cfg.kss {
		out.kssSt = newKss(key)
		kssP = out.kssSt.P(key)
		out.total = add(secret, out.kssSt.secret)
	}
	if cfg.witness {
		rev, err := world.NewRev(key)
		if err != nil {
			return nil, err
		}
		out.rev = rev
	}
	// holder: builder + commitment
	b, err := gabi.NewCredentialBuilder(pk, ctx, secret, n2, kssP, cfg.blind)
	if err != nil {
		return nil, fmt.Errorf("NewCredentialBuilder: %w", err)
	}
	run := &world.IssueRun{Key: key, Context: ctx, Nonce1: n1, Nonce2: n2, Secret: secret, KssP: kssP, Blind: cfg.blind, Builder: b}
	if cfg.kss {
		list, err := out.kssSt.prove(gabi.ProofBuilderList{b}, ctx, n1, false)
		if err != nil {
			return nil, fmt.Errorf("keyshare protocol: %w", err)
		}
		run.Commit = b.CreateIssueCommitmentMessage(list)
	} else {
		if jr.IntN(3) == 0 {
			// the issuer's first nonce was lost (time-out): the holder had already answered it and now answers the second one
			// with the same builder
			if _, e0 := b.CommitToSecretAndProve(randBig(jr, 80)); e0 != nil {
				return nil, fmt.Errorf("CommitToSecretAndProve (abandoned attempt): %w", e0)
			}
			r.Add("commitments_retried_on_the_same_builder", 1)
		}
		run.Commit, err = b.CommitToSecretAndProve(n1)
		if err != nil {
			return nil, fmt.Errorf("CommitToSecretAndProve: %w", err)
		}
	}
	// issuer: verify the commitment, then sign
	ok, pv, _ := verifyList(cloneList(run.Commit.Proofs), []*gabikeys.PublicKey{pk}, ctx, n1, false, nil)
	if pv != nil || !ok {
		return nil, fmt.Errorf("issuer-side verification of the honest commitment failed (panic=%v)", pv)
	}
	all := append([]*big.Int{}, attrs...)
	if out.rev != nil {
		w, err := out.rev.NewWitness()
		if err != nil {
			return nil, err
		}
		run.Witness = w
		all = append(all, w.E)
	}
	run.Attrs = all
	issuer := gabi.NewIssuer(key.SK, pk, ctx)
	if jr.IntN(3) == 0 {
		// an issuer object with a history: it served another holder (other commitment, attributes, nonce) just before
		otherU := new(big.Int).Exp(pk.S, randBig(jr, 300), pk.N)
		otherAttrs := make([]*big.Int, len(all))
		for i := range otherAttrs {
			otherAttrs[i] = randBig(jr, 100)
		}
		for _, bl := range cfg.blind {
			otherAttrs[bl] = nil
		}
		var otherW *revocation.Witness
		if out.rev != nil {
			if otherW, err = out.rev.NewWitness(); err != nil {
				return nil, err
			}
			otherAttrs[len(otherAttrs)-1] = otherW.E
		}
		if _, e0 := issuer.IssueSignature(otherU, otherAttrs, otherW, randBig(jr, 80), cfg.blind); e0 != nil {
			return nil, fmt.Errorf("IssueSignature (earlier holder on the same issuer object): %w", e0)
		}
		r.Add("issuer_objects_with_an_earlier_issuance", 1)
	}
	run.Sig, err = issuer.IssueSignature(run.Commit.U, all, run.Witness, n2, cfg.blind)
	if err != nil {
		return nil, fmt.Errorf("IssueSignature: %w", err)
	}
	out.run = run
	out.commit = run.Commit
	return out, nil
}

// c06RefChecks evaluates the reference conditions on a credential that came out of ConstructCredential.
func c06RefChecks(h *c06run, delivered *gabi.IssueSignatureMessage, attrsGiven []*big.Int, cred *gabi.Credential) (bool, string) {
	pk := h.key.PK
	if delivered == nil || delivered.Proof == nil || delivered.Signature == nil {
		return false, "credential produced from a message without proof/signature"
	}
	if !refimpl.RefVerifyS(pk, delivered.Proof, delivered.Signature, h.run.Context, h.run.Nonce2) {
		return false, "issuer's proof of signature correctness does not satisfy the reference check under the builder's context/nonce2"
	}
	if cred.Signature == nil || len(cred.Attributes) == 0 {
		return false, "credential without signature/attributes"
	}
	// the signature must be over exactly (secret, attributes) [times the holder's OWN keyshare factor]: evaluate the reference
	// with the factor the builder was created with, never with one that arrived in the issuer's message
	own := &gabi.CLSignature{A: cred.Signature.A, E: cred.Signature.E, V: cred.Signature.V, KeyshareP: h.run.KssP}
	if !refimpl.CLValid(pk, own, cred.Attributes) {
		return false, "credential signature fails the reference CL check over exactly (secret, attributes) with the holder's own keyshare factor"
	}
	if (cred.Signature.KeyshareP == nil) != (h.run.KssP == nil) || (h.run.KssP != nil && cred.Signature.KeyshareP.Cmp(h.run.KssP) != 0) {
		return false, "the credential carries a keyshare factor that is not the holder's own"
	}
	if cred.Attributes[0].Cmp(h.run.Secret) != 0 {
		return false, "attribute 0 of the credential is not the holder's secret"
	}
	if len(cred.Attributes) != len(attrsGiven)+1 {
		return false, "attribute count differs"
	}
	isBlind := map[int]bool{}
	for _, b := range h.cfg.blind {
		isBlind[b+1] = true
	}
	for i := 1; i < len(cred.Attributes); i++ {
		if isBlind[i] {
			share := delivered.MIssuer[i]
			if share == nil {
				return false, fmt.Sprintf("blind attribute %d without issuer share", i)
			}
			user := sub(cred.Attributes[i], share)
			if user.Sign() < 0 || user.BitLen() > int(pk.Params.Lm)-1 {
				return false, fmt.Sprintf("blind attribute %d is not issuer share + a user share of at most Lm-1 bits", i)
			}
		} else if attrsGiven[i-1] == nil || cred.Attributes[i].Cmp(attrsGiven[i-1]) != 0 {
			return false, fmt.Sprintf("attribute %d differs from what the holder was told", i)
		}
	}
	if w := delivered.NonRevocationWitness; w != nil {
		if cred.NonRevocationWitness == nil {
			return false, "witness dropped"
		}
		sacc := cloneSAcc(w.SignedAccumulator)
		if sacc == nil {
			return false, "witness without accumulator"
		}
		acc, err := sacc.UnmarshalVerify(pk)
		if err != nil {
			return false, "witness accumulator not validly signed: " + err.Error()
		}
		if w.U == nil || w.E == nil || new(big.Int).Exp(w.U, w.E, pk.N).Cmp(acc.Nu) != 0 {
			return false, "witness does not satisfy u^e = nu"
		}
		found := false
		for _, a := range cred.Attributes {
			if a.Cmp(w.E) == 0 {
				found = true
			}
		}
		if !found {
			return false, "revocation attribute not among the signed attributes"
		}
	}
	return true, ""
}

// c06Extreme runs the honest protocol while single reads of crypto/rand.Reader are answered with all ones / all zeros: whatever
// the random source returns, the honest run has to end with a valid credential (an error or a rejection of the honest
// counterpart's message is a failed run).
func c06Extreme(r *mon.Run) {
	key := world.Fixture("toy512a")
	pk := key.PK
	for _, blind := range [][]int{nil, {1}} {
		extremeDraws(r.Pick(10, 16), func(desc string, hit func() bool) {
			attrs := []*big.Int{bi(4711), bi(42), bi(7)}
			for _, b := range blind {
				attrs[b] = nil
			}
			ctx, n1, n2, secret := bi(1), bi(987654321), bi(1234567), bi(1).Lsh(bi(1), 200)
			var run *world.IssueRun
			var err, ferr error
			var icmOK bool
			pv, stack := mon.Try(func() {
				run, err = world.Issue(key, ctx, n1, n2, secret, nil, attrs, blind, nil)
				if err == nil {
					icmOK = run.Commit.Proofs.Verify([]*gabikeys.PublicKey{pk}, ctx, n1, false, nil)
					ferr = run.Finish()
				}
			})
			if !hit() {
				return
			}
			d := fmt.Sprintf("blind=%v %s", blind, desc)
			r.Distinct("extreme-randomness", d)
			if pv != nil {
				r.Eval("extreme-randomness", "panic")
				r.Violation("C06/honest-run-fails/extreme-randomness", fmt.Sprintf("honest issuance panics under an extreme random draw: %v at %s (%s)", pv, mon.PanicSite(stack), d), map[string]any{"case": d})
				return
			}
			good := err == nil && ferr == nil && icmOK && run.Cred != nil && refimpl.CLValid(pk, run.Cred.Signature, run.Cred.Attributes)
			r.Eval("extreme-randomness", outcome(good, nil))
			if !good {
				r.Violation("C06/honest-run-fails/extreme-randomness", fmt.Sprintf("honest issuance does not end with a valid credential under an extreme random draw (issue err=%v, commitment verified=%v, construct err=%v) (%s)", err, icmOK, ferr, d), map[string]any{"case": d})
			}
		})
	}
	r.FloorFam("extreme-randomness", 10)
	// one read of the random source FAILS: either party may refuse to go on; a run that completes all the same must end with a
	// valid credential over the issuer's attributes
	for _, blind := range [][]int{nil, {1}} {
		failedDraws(r.Pick(12, 24), func(desc string, hit func() bool) {
			attrs := []*big.Int{bi(4711), bi(42), bi(7)}
			for _, b := range blind {
				attrs[b] = nil
			}
			ctx, n1, n2, secret := bi(1), bi(987654322), bi(1234568), bi(1).Lsh(bi(1), 200)
			var run *world.IssueRun
			var err, ferr error
			var icmOK bool
			pv, _ := mon.Try(func() {
				run, err = world.Issue(key, ctx, n1, n2, secret, nil, attrs, blind, nil)
				if err == nil {
					icmOK = run.Commit.Proofs.Verify([]*gabikeys.PublicKey{pk}, ctx, n1, false, nil)
					ferr = run.Finish()
				}
			})
			if !hit() {
				return
			}
			d := fmt.Sprintf("blind=%v %s", blind, desc)
			r.Distinct("failed-draw", d)
			switch {
			case pv != nil:
				r.Eval("failed-draw", "panic") // a crash under a failing random source is outside this property
			case err != nil || ferr != nil || run.Cred == nil:
				r.Eval("failed-draw", "error")
			default:
				good := icmOK && refimpl.CLValid(pk, run.Cred.Signature, run.Cred.Attributes)
				for i, a := range attrs {
					if a != nil && (i+1 >= len(run.Cred.Attributes) || run.Cred.Attributes[i+1].Cmp(a) != 0) {
						good = false
					}
				}
				r.Eval("failed-draw", outcome(good, nil))
				if !good {
					r.Violation("C06/honest-run-fails/failed-draw", fmt.Sprintf("an issuance that completed without error although a read of the random source failed does not give a valid credential over the issuer's attributes (commitment verified=%v) (%s)", icmOK, d), map[string]any{"case": d})
				}
			}
		})
	}
	r.FloorFam("failed-draw", 10)
}

func runC06(r *mon.Run) {
	c06Extreme(r)
	keys := []string{"toy512a", "toy512z"}
	if r.Thorough() {
		keys = []string{"toy512a", "toy512z", "toy384a", "toy256a", "fix1024a", "fix2048a"}
	}
	rng := r.Rand("jobs")
	var cfgs []c06cfg
	for _, kn := range keys {
		maxBlindN := r.Pick(3, 5)
		maxN := len(world.Fixture(kn).PK.R) - 2
		if strings.HasPrefix(kn, "fix") {
			maxBlindN = 2
		}
		for n := 1; n <= maxN; n++ {
			var blinds [][]int
			if n <= maxBlindN {
				for _, s := range subsets(n) {
					b := make([]int, len(s))
					for i, v := range s {
						b[i] = v - 1
					}
					blinds = append(blinds, b)
				}
			} else {
				blinds = [][]int{nil, {n - 1}, {0, n - 1}}
			}
			for _, bl := range blinds {
				for _, ks := range []bool{false, true} {
					if ks && key512Lstatzk80(kn) {
						continue
					}
					for _, wit := range []bool{false, true} {
						cfgs = append(cfgs, c06cfg{kn, n, bl, ks, wit, rng.Uint64()})
					}
				}
			}
		}
	}
	r.Set("honest_configurations", len(cfgs))
	mon.Parallel(len(cfgs), runtime.NumCPU(), func(i int) {
		cfg := cfgs[i]
		jr := rand.New(rand.NewPCG(cfg.seed, 6))
		c06Config(r, cfg, jr, i)
	})
	r.FloorAccept("honest", 20)
	r.FloorFam("fault-sigmsg", 300)
	r.FloorFam("fault-commit", 200)
	r.FloorFam("fault-issuer-input", 20)
}

func c06Config(r *mon.Run, cfg c06cfg, jr *rand.Rand, idx int) {
	h, err := c06Honest(r, cfg, jr)
	if err != nil {
		r.Eval("honest", "error")
		r.Violation("C06/honest-run-fails", "honest issuance run fails: "+err.Error()+" ("+cfg.String()+")", map[string]any{"config": cfg.String()})
		return
	}
	other, err := c06Honest(r, cfg, jr) // a parallel run with the same configuration, for cross-run substitution
	if err != nil {
		return
	}
	pk := h.key.PK
	// honest completion
	deliver := func(family, desc string, msg *gabi.IssueSignatureMessage, attrs []*big.Int, honest bool) {
		r.Distinct(cfg.String(), family, desc)
		m := cloneISM(msg)
		given := cloneInts(attrs)
		var cred *gabi.Credential
		var err error
		pv, stack := mon.Try(func() { cred, err = h.run.Builder.ConstructCredential(m, cloneInts(attrs)) })
		switch {
		case pv != nil:
			r.Eval(family, "panic")
			r.PanicSeen(mon.PanicSite(stack))
			if !honest && !strings.HasPrefix(desc, "attrs") {
				r.Violation("C06/receiver-panics-on-deviating-message@"+mon.PanicSite(stack), fmt.Sprintf("ConstructCredential panics instead of rejecting a deviating issuer message (%s): %v (%s)", desc, pv, cfg),
					map[string]any{"config": cfg.String(), "fault": desc, "delivered": dumpISMSafe(m)})
			}
			if honest {
				r.Violation("C06/honest-run-fails", fmt.Sprintf("ConstructCredential panicked on the honest message: %v (%s)", pv, cfg), map[string]any{"config": cfg.String()})
			}
			return
		case err != nil || cred == nil:
			r.Eval(family, "reject")
			if honest {
				r.Violation("C06/honest-run-fails", fmt.Sprintf("ConstructCredential rejects the honest message: %v (%s)", err, cfg), map[string]any{"config": cfg.String(), "message": dumpISM(msg)})
				return
			}
			// the holder retries with the very same message object: what was refused stays refused
			for attempt := 2; attempt <= 3; attempt++ {
				var c2 *gabi.Credential
				var e2 error
				pv2, _ := mon.Try(func() { c2, e2 = h.run.Builder.ConstructCredential(m, cloneInts(attrs)) })
				r.Eval(family+"/retry", outcome(pv2 == nil && e2 == nil && c2 != nil, pv2))
				if pv2 == nil && e2 == nil && c2 != nil {
					_, why := c06RefChecks(h, m, given, c2)
					r.Violation("C06/refused-message-accepted-on-retry/"+strings.SplitN(desc, " ", 2)[0], fmt.Sprintf("ConstructCredential refused the message (%v) and produces a credential from the same message object on attempt %d (%s; reference: %s; %s)", err, attempt, desc, why, cfg),
						map[string]any{"config": cfg.String(), "fault": desc, "delivered": dumpISMSafe(m), "attempt": attempt})
					break
				}
			}
			return
		}
		r.Eval(family, "accept")
		ok, why := c06RefChecks(h, m, given, cred)
		if !ok {
			sig := "C06/credential-from-deviating-message"
			r.Violation(sig+"/"+strings.SplitN(desc, " ", 2)[0], fmt.Sprintf("a credential was produced although %s (%s; %s)", why, desc, cfg),
				map[string]any{"config": cfg.String(), "fault": desc, "delivered": dumpISM(m), "attributes_given": dumpInts(given),
					"context": dumpInt(h.run.Context), "nonce2": dumpInt(h.run.Nonce2), "credential_attributes": dumpInts(cred.Attributes)})
		}
	}
	deliver("honest", "honest", h.run.Sig, h.run.Attrs, true)
	if idx%29 == 0 {
		r.Sample(map[string]any{"config": cfg.String(), "attrs_bits": bitlensNil(h.run.Attrs), "m_issuer": len(h.run.Sig.MIssuer)})
	}

	// ---- faults in the issuer's message (holder must reject) ----
	base := h.run.Sig
	ord := h.key.Ord
	type fault struct {
		name string
		f    func(m *gabi.IssueSignatureMessage)
	}
	var faults []fault
	intf := func(name string, get func(m *gabi.IssueSignatureMessage) **big.Int, otherVal *big.Int) {
		faults = append(faults,
			fault{name + " +1", func(m *gabi.IssueSignatureMessage) { p := get(m); *p = add(*p, bigOne) }},
			fault{name + " -1", func(m *gabi.IssueSignatureMessage) { p := get(m); *p = sub(*p, bigOne) }},
			fault{name + " zero", func(m *gabi.IssueSignatureMessage) { p := get(m); *p = bi(0) }},
			fault{name + " +ord", func(m *gabi.IssueSignatureMessage) { p := get(m); *p = add(*p, ord) }},
			fault{name + " +N (same residue modulo the key's modulus)", func(m *gabi.IssueSignatureMessage) { p := get(m); *p = add(*p, pk.N) }},
			fault{name + " +2N", func(m *gabi.IssueSignatureMessage) { p := get(m); *p = add(*p, mul(pk.N, bi(2))) }},
			fault{name + " -N", func(m *gabi.IssueSignatureMessage) { p := get(m); *p = sub(*p, pk.N) }},
			fault{name + " other-run", func(m *gabi.IssueSignatureMessage) { p := get(m); *p = cp(otherVal) }},
		)
	}
	intf("proofS.c", func(m *gabi.IssueSignatureMessage) **big.Int { return &m.Proof.C }, other.run.Sig.Proof.C)
	intf("proofS.e_response", func(m *gabi.IssueSignatureMessage) **big.Int { return &m.Proof.EResponse }, other.run.Sig.Proof.EResponse)
	intf("signature.A", func(m *gabi.IssueSignatureMessage) **big.Int { return &m.Signature.A }, other.run.Sig.Signature.A)
	intf("signature.e", func(m *gabi.IssueSignatureMessage) **big.Int { return &m.Signature.E }, other.run.Sig.Signature.E)
	intf("signature.v", func(m *gabi.IssueSignatureMessage) **big.Int { return &m.Signature.V }, other.run.Sig.Signature.V)
	for _, i := range sortedKeys(base.MIssuer) {
		i := i
		ov := other.run.Sig.MIssuer[i]
		nm := fmt.Sprintf("m_issuer[%d]", i)
		faults = append(faults,
			fault{nm + " +1", func(m *gabi.IssueSignatureMessage) { m.MIssuer[i] = add(m.MIssuer[i], bigOne) }},
			fault{nm + " -1", func(m *gabi.IssueSignatureMessage) { m.MIssuer[i] = sub(m.MIssuer[i], bigOne) }},
			fault{nm + " zero", func(m *gabi.IssueSignatureMessage) { m.MIssuer[i] = bi(0) }},
			fault{nm + " +ord", func(m *gabi.IssueSignatureMessage) { m.MIssuer[i] = add(m.MIssuer[i], ord) }},
			fault{nm + " other-run", func(m *gabi.IssueSignatureMessage) { m.MIssuer[i] = cp(ov) }},
			fault{nm + " +2^Lm", func(m *gabi.IssueSignatureMessage) { m.MIssuer[i] = add(m.MIssuer[i], pow2(pk.Params.Lm)) }},
		)
		faults = append(faults, fault{fmt.Sprintf("m_issuer[%d] dropped", i), func(m *gabi.IssueSignatureMessage) { delete(m.MIssuer, i) }})
	}
	faults = append(faults,
		fault{"m_issuer extra-entry at non-blind index", func(m *gabi.IssueSignatureMessage) {
			if m.MIssuer == nil {
				m.MIssuer = map[int]*big.Int{}
			}
			m.MIssuer[len(h.run.Attrs)+3] = bi(5)
		}},
		fault{"signature other-run whole", func(m *gabi.IssueSignatureMessage) { m.Signature = cloneSig(other.run.Sig.Signature) }},
		fault{"proofS other-run whole", func(m *gabi.IssueSignatureMessage) { m.Proof = cloneISM(other.run.Sig).Proof }},
		fault{"message other-run whole", func(m *gabi.IssueSignatureMessage) { *m = *cloneISM(other.run.Sig) }},
		fault{"signature.e next-prime (A recomputed impossible)", func(m *gabi.IssueSignatureMessage) { m.Signature.E = nextPrime(add(m.Signature.E, bi(2))) }},
		// fields missing from the issuer's message (a JSON document without them decodes to nil)
		fault{"proof missing", func(m *gabi.IssueSignatureMessage) { m.Proof = nil }},
		fault{"proofS.c missing", func(m *gabi.IssueSignatureMessage) { m.Proof.C = nil }},
		fault{"proofS.e_response missing", func(m *gabi.IssueSignatureMessage) { m.Proof.EResponse = nil }},
		fault{"signature missing", func(m *gabi.IssueSignatureMessage) { m.Signature = nil }},
		fault{"signature.A missing", func(m *gabi.IssueSignatureMessage) { m.Signature.A = nil }},
		fault{"signature.e missing", func(m *gabi.IssueSignatureMessage) { m.Signature.E = nil }},
		fault{"signature.v missing", func(m *gabi.IssueSignatureMessage) { m.Signature.V = nil }},
		fault{"m_issuer missing", func(m *gabi.IssueSignatureMessage) { m.MIssuer = nil }},
	)
	if base.NonRevocationWitness != nil {
		intf("witness.u", func(m *gabi.IssueSignatureMessage) **big.Int { return &m.NonRevocationWitness.U }, other.run.Sig.NonRevocationWitness.U)
		intf("witness.e", func(m *gabi.IssueSignatureMessage) **big.Int { return &m.NonRevocationWitness.E }, other.run.Sig.NonRevocationWitness.E)
		faults = append(faults,
			fault{"witness other-run whole", func(m *gabi.IssueSignatureMessage) {
				m.NonRevocationWitness = cloneWitness(other.run.Sig.NonRevocationWitness)
			}},
			fault{"witness.sacc other-run", func(m *gabi.IssueSignatureMessage) {
				m.NonRevocationWitness.SignedAccumulator = cloneSAcc(other.run.Sig.NonRevocationWitness.SignedAccumulator)
			}},
			fault{"witness.sacc byte-flip", func(m *gabi.IssueSignatureMessage) {
				d := m.NonRevocationWitness.SignedAccumulator.Data
				d[len(d)/2] ^= 1
			}},
			fault{"witness.sacc counter+1", func(m *gabi.IssueSignatureMessage) { m.NonRevocationWitness.SignedAccumulator.PKCounter++ }},
			fault{"witness.sacc foreign-issuer", func(m *gabi.IssueSignatureMessage) {
				fk := world.Fixture("toy512b")
				acc := *h.rev.Accs[0]
				s, _ := acc.Sign(fk.SK)
				m.NonRevocationWitness.SignedAccumulator = cloneSAcc(s)
			}},
			fault{"witness forged-consistent (free u, nu=u^e, signed by a foreign key)", func(m *gabi.IssueSignatureMessage) {
				fk := world.Fixture("toy512b")
				w := m.NonRevocationWitness
				w.U = new(big.Int).Exp(bi(3), bi(65537), pk.N)
				acc := *h.rev.Accs[0]
				acc.Nu = new(big.Int).Exp(w.U, w.E, pk.N)
				s, _ := acc.Sign(fk.SK)
				w.SignedAccumulator = cloneSAcc(s)
			}},
			fault{"witness dropped", func(m *gabi.IssueSignatureMessage) { m.NonRevocationWitness = nil }},
			fault{"witness.u missing", func(m *gabi.IssueSignatureMessage) { m.NonRevocationWitness.U = nil }},
			fault{"witness.e missing", func(m *gabi.IssueSignatureMessage) { m.NonRevocationWitness.E = nil }},
			fault{"witness.sacc missing", func(m *gabi.IssueSignatureMessage) { m.NonRevocationWitness.SignedAccumulator = nil }},
		)
	}
	// refused (and accepted-by-mistake) messages must leave the builder as it was: the genuine message is delivered again
	// after the first fault, after every sixth, and at the end, and has to produce the credential each time
	redeliver := func(after string) {
		var c2 *gabi.Credential
		var e2 error
		pv2, _ := mon.Try(func() { c2, e2 = h.run.Builder.ConstructCredential(cloneISM(base), cloneInts(h.run.Attrs)) })
		good := pv2 == nil && e2 == nil && c2 != nil
		if good {
			good, _ = c06RefChecks(h, base, cloneInts(h.run.Attrs), c2)
		}
		r.Eval("honest-redelivery", outcome(good, pv2))
		if !good {
			r.Violation("C06/honest-run-fails/after-deviating-messages", fmt.Sprintf("the genuine issuer message no longer yields the credential after the builder has seen deviating messages (last: %s): err=%v panic=%v (%s)", after, e2, pv2, cfg),
				map[string]any{"config": cfg.String(), "after": after})
		}
	}
	for fi, f := range faults {
		m := cloneISM(base)
		f.f(m)
		deliver("fault-sigmsg", f.name, m, h.run.Attrs, false)
		if fi == 0 || fi%6 == 5 || fi == len(faults)-1 {
			redeliver(f.name)
		}
	}
	// holder told different attributes than the issuer signed
	for i := range h.run.Attrs {
		if h.run.Attrs[i] == nil {
			continue
		}
		at := cloneInts(h.run.Attrs)
		at[i] = add(at[i], bigOne)
		deliver("fault-sigmsg", fmt.Sprintf("attrs[%d] told+1", i), base, at, false)
	}
	if len(h.run.Attrs) > 1 {
		deliver("fault-sigmsg", "attrs truncated", base, h.run.Attrs[:len(h.run.Attrs)-1], false)
	}
	deliver("fault-sigmsg", "attrs extended", base, append(cloneInts(h.run.Attrs), bi(0)), false)
	// issuer deviating in nonce2 / context / U (fresh signatures made with the real issuer key)
	issuerVariants := []struct {
		name   string
		ctx    *big.Int
		nonce2 *big.Int
		U      *big.Int
	}{
		{"issuer nonce2+1", h.run.Context, add(h.run.Nonce2, bigOne), h.commit.U},
		{"issuer nonce2:=nonce1", h.run.Context, h.run.Nonce1, h.commit.U},
		{"issuer nonce2 other-run", h.run.Context, other.run.Nonce2, h.commit.U},
		{"issuer context+1", add(h.run.Context, bigOne), h.run.Nonce2, h.commit.U},
		{"issuer context other-run", other.run.Context, h.run.Nonce2, h.commit.U},
		{"issuer U other-run", h.run.Context, h.run.Nonce2, other.commit.U},
		{"issuer U+1", h.run.Context, h.run.Nonce2, add(h.commit.U, bigOne)},
		{"issuer U*S (shifted v')", h.run.Context, h.run.Nonce2, new(big.Int).Mod(mul(h.commit.U, pk.S), pk.N)},
	}
	for _, v := range issuerVariants {
		issuer := gabi.NewIssuer(h.key.SK, pk, v.ctx)
		var msg *gabi.IssueSignatureMessage
		var err error
		pvv, _ := mon.Try(func() {
			msg, err = issuer.IssueSignature(v.U, cloneInts(h.run.Attrs), cloneWitnessFull(h.run.Witness), v.nonce2, h.cfg.blind)
		})
		if pvv != nil || err != nil {
			r.Eval("fault-issuer-side", "reject")
			continue
		}
		deliver("fault-sigmsg", v.name, msg, h.run.Attrs, false)
	}

	// a malicious issuer that signs U*X and ships X as "KeyshareP" inside the signature (two consistent changes)
	for _, xb := range []int{0, 1} {
		if xb >= len(pk.R) {
			continue
		}
		X := new(big.Int).Exp(pk.R[xb], randBig(jr, 200), pk.N)
		issuer := gabi.NewIssuer(h.key.SK, pk, h.run.Context)
		var msg *gabi.IssueSignatureMessage
		var err error
		pvv, _ := mon.Try(func() {
			msg, err = issuer.IssueSignature(new(big.Int).Mod(mul(h.commit.U, X), pk.N), cloneInts(h.run.Attrs), cloneWitnessFull(h.run.Witness), h.run.Nonce2, h.cfg.blind)
		})
		if pvv != nil || err != nil {
			continue
		}
		msg.Signature.KeyshareP = X
		deliver("fault-sigmsg", fmt.Sprintf("issuer signs U*R%d^k and sends KeyshareP", xb), msg, h.run.Attrs, false)
		inv := new(big.Int).ModInverse(X, pk.N)
		msg2 := cloneISM(msg)
		msg2.Signature.KeyshareP = inv
		deliver("fault-sigmsg", fmt.Sprintf("issuer signs U*R%d^k and sends the inverse as KeyshareP", xb), msg2, h.run.Attrs, false)
	}
	{
		m := cloneISM(base)
		m.Signature.KeyshareP = bi(1)
		deliver("fault-sigmsg", "signature.KeyshareP :=1 (neutral factor from the issuer)", m, h.run.Attrs, false)
	}
	// a malicious issuer that re-signs with an exponent e* of its own choice (outside the prescribed interval, or composite) and
	// proves correctness of that signature honestly: the equation and the proof hold, only the holder's checks on e stand in the way
	{
		start, width := pow2(pk.Params.Le-1), pow2(pk.Params.LePrime-1)
		Q := new(big.Int).Exp(base.Signature.A, base.Signature.E, pk.N)
		primeFrom := func(x *big.Int, step int64) *big.Int {
			p := cp(x)
			if p.Bit(0) == 0 {
				p.Add(p, bigOne)
			}
			for !p.ProbablyPrime(30) {
				p.Add(p, bi(2*step))
			}
			return p
		}
		inside := primeFrom(add(start, randBig(jr, int(pk.Params.LePrime)-2)), 1)
		cands := []struct {
			name string
			e    *big.Int
		}{
			{"prime just above the interval", primeFrom(add(add(start, width), bi(2)), 1)},
			{"prime of l_e bits far above the interval", primeFrom(sub(pow2(pk.Params.Le), pow2(pk.Params.Le-3)), 1)},
			{"prime just below the interval", primeFrom(sub(start, bi(2)), -1)},
			{"composite inside the interval", add(start, mul(bi(3), bi(5)))},
			{"product of two primes inside the interval", nil},
		}
		_ = inside
		for _, cnd := range cands {
			e2 := cnd.e
			if e2 == nil {
				a := primeFrom(pow2(pk.Params.Le/2), 1)
				e2 = mul(a, primeFrom(new(big.Int).Div(add(start, bi(1000)), a), 1))
			}
			d := new(big.Int).ModInverse(e2, ord)
			if d == nil {
				continue
			}
			m := cloneISM(base)
			m.Signature.A = new(big.Int).Exp(Q, d, pk.N)
			m.Signature.E = e2
			eCommit := add(randBig(jr, ord.BitLen()-2), bigOne)
			aCommit := new(big.Int).Exp(Q, eCommit, pk.N)
			c := refimpl.HashCommit([]*big.Int{h.run.Context, Q, m.Signature.A, h.run.Nonce2, aCommit}, false)
			m.Proof = &gabi.ProofS{C: c, EResponse: new(big.Int).Mod(sub(eCommit, mul(c, d)), ord)}
			deliver("fault-sigmsg", "issuer re-signs with its own exponent: "+cnd.name, m, h.run.Attrs, false)
		}
	}

	// ---- faults in the holder's commitment message (issuer must reject) ----
	pu, err := h.commit.Proofs.GetFirstProofU()
	if err != nil {
		return
	}
	puOther, _ := other.commit.Proofs.GetFirstProofU()
	issuerCheck := func(desc string, p *gabi.ProofU, ctx, n1 *big.Int) {
		r.Distinct(cfg.String(), "fault-commit", desc)
		ref := refimpl.RefVerifyU(pk, p, ctx, n1)
		ok, pv, stack := verifyList(gabi.ProofList{cloneU(p)}, []*gabikeys.PublicKey{pk}, ctx, n1, false, nil)
		r.Eval("fault-commit", outcome(ok, pv))
		if pv != nil {
			r.PanicSeen(mon.PanicSite(stack))
		}
		var ok2 bool
		pv2, _ := mon.Try(func() { ok2 = cloneU(p).Verify(pk, ctx, n1) })
		for _, got := range []bool{ok, ok2 && pv2 == nil} {
			if got && !ref {
				r.Violation("C06/deviating-commitment-accepted/"+strings.SplitN(desc, " ", 2)[0], fmt.Sprintf("issuer-side verification accepts a commitment proof that fails the reference check (%s; %s)", desc, cfg),
					map[string]any{"config": cfg.String(), "fault": desc, "proofU": dumpU(p), "context": dumpInt(ctx), "nonce1": dumpInt(n1)})
			}
		}
		if desc == "honest" && (!ok || !ok2) {
			r.Violation("C06/honest-run-fails", "issuer rejects the honest commitment ("+cfg.String()+")", map[string]any{"config": cfg.String()})
		}
	}
	issuerCheck("honest", pu, h.run.Context, h.run.Nonce1)
	uf := func(name string, get func(p *gabi.ProofU) **big.Int, ov *big.Int) {
		for _, op := range []string{"+1", "-1", "zero", "+ord", "other-run"} {
			p := cloneU(pu)
			s := get(p)
			switch op {
			case "+1":
				*s = add(*s, bigOne)
			case "-1":
				*s = sub(*s, bigOne)
			case "zero":
				*s = bi(0)
			case "+ord":
				*s = add(*s, ord)
			case "other-run":
				*s = cp(ov)
			}
			issuerCheck(name+" "+op, p, h.run.Context, h.run.Nonce1)
		}
	}
	uf("U", func(p *gabi.ProofU) **big.Int { return &p.U }, puOther.U)
	uf("c", func(p *gabi.ProofU) **big.Int { return &p.C }, puOther.C)
	uf("v_prime_response", func(p *gabi.ProofU) **big.Int { return &p.VPrimeResponse }, puOther.VPrimeResponse)
	uf("s_response", func(p *gabi.ProofU) **big.Int { return &p.SResponse }, puOther.SResponse)
	for _, i := range sortedKeys(pu.MUserResponses) {
		i := i
		for _, op := range []string{"+1", "-1", "zero", "+ord", "other-run"} {
			p := cloneU(pu)
			switch op {
			case "+1":
				p.MUserResponses[i] = add(p.MUserResponses[i], bigOne)
			case "-1":
				p.MUserResponses[i] = sub(p.MUserResponses[i], bigOne)
			case "zero":
				p.MUserResponses[i] = bi(0)
			case "+ord":
				p.MUserResponses[i] = add(p.MUserResponses[i], ord)
			case "other-run":
				p.MUserResponses[i] = cp(puOther.MUserResponses[i])
			}
			issuerCheck(fmt.Sprintf("m_user_responses[%d] %s", i, op), p, h.run.Context, h.run.Nonce1)
		}
		p := cloneU(pu)
		delete(p.MUserResponses, i)
		issuerCheck(fmt.Sprintf("m_user_responses[%d] dropped", i), p, h.run.Context, h.run.Nonce1)
	}
	// shifts of v' response across its range bound with the trapdoor (equation-preserving)
	B := sub(pow2(pk.Params.LvPrimeCommit+1), bigOne)
	for band, nv := range shiftBands(pu.VPrimeResponse, ord, B) {
		p := cloneU(pu)
		p.VPrimeResponse = nv
		issuerCheck("v_prime_response band "+band, p, h.run.Context, h.run.Nonce1)
	}
	// a prover that chooses a negative v' randomiser from the start (consistent proof, out-of-range response)
	if !cfg.kss {
		up := refimpl.NewUProver(pk, map[int]*big.Int{0: h.run.Secret}, nil)
		up.VPrimeCommit = new(big.Int).Neg(pow2(pk.Params.LvPrimeCommit))
		lst, _ := refimpl.ProveList([]refimpl.Prover{up}, h.run.Context, h.run.Nonce1, false)
		issuerCheck("v_prime_response negative-by-construction", lst[0].(*gabi.ProofU), h.run.Context, h.run.Nonce1)
		up2 := refimpl.NewUProver(pk, map[int]*big.Int{0: h.run.Secret}, nil)
		up2.VPrimeCommit = pow2(pk.Params.LvPrimeCommit + 2)
		lst2, _ := refimpl.ProveList([]refimpl.Prover{up2}, h.run.Context, h.run.Nonce1, false)
		issuerCheck("v_prime_response too-large-by-construction", lst2[0].(*gabi.ProofU), h.run.Context, h.run.Nonce1)
	}
	// forged commitment without knowledge of any secret: U is not a group element (0, a multiple of N or of a prime
	// factor), so that a verifier which lets U^-c collapse would reconstruct a predictable commitment; the challenge is
	// computed up front for the guessed value and all responses are free
	for _, du := range []struct {
		name string
		u    *big.Int
	}{{"0", bi(0)}, {"N", cp(pk.N)}, {"2N", mul(pk.N, bi(2))}, {"-N", new(big.Int).Neg(pk.N)}, {"p", cp(h.key.SK.P)}} {
		for _, gz := range []struct {
			name string
			z    *big.Int
		}{{"0", bi(0)}, {"1", bi(1)}} {
			f := &gabi.ProofU{U: cp(du.u), VPrimeResponse: randBig(jr, int(pk.Params.LvPrimeCommit)), SResponse: randBig(jr, int(pk.Params.LmCommit)), MUserResponses: map[int]*big.Int{}}
			f.C = refimpl.Challenge(h.run.Context, h.run.Nonce1, []*big.Int{f.U, gz.z}, false)
			issuerCheck(fmt.Sprintf("forged U=%s challenge-for-commitment-%s", du.name, gz.name), f, h.run.Context, h.run.Nonce1)
		}
	}
	issuerCheck("nonce1 +1", pu, h.run.Context, add(h.run.Nonce1, bigOne))
	issuerCheck("nonce1 :=nonce2", pu, h.run.Context, h.run.Nonce2)
	issuerCheck("nonce1 other-run", pu, h.run.Context, other.run.Nonce1)
	issuerCheck("context +1", pu, add(h.run.Context, bigOne), h.run.Nonce1)
	issuerCheck("context other-run", pu, other.run.Context, h.run.Nonce1)
	issuerCheck("proof other-run whole", puOther, h.run.Context, h.run.Nonce1)

	// ---- issuer input validation ----
	issuer := gabi.NewIssuer(h.key.SK, pk, h.run.Context)
	inputs := []struct {
		name  string
		attrs []*big.Int
		blind []int
	}{
		{"non-nil attribute at blind index", fillNil(h.run.Attrs), append([]int{0}, h.cfg.blind...)},
		{"blind index out of range", cloneInts(h.run.Attrs), []int{len(h.run.Attrs) + 2}},
	}
	for _, in := range inputs {
		var msg *gabi.IssueSignatureMessage
		var err error
		pvv, stack := mon.Try(func() {
			msg, err = issuer.IssueSignature(h.commit.U, in.attrs, cloneWitnessFull(h.run.Witness), h.run.Nonce2, in.blind)
		})
		r.Distinct(cfg.String(), "fault-issuer-input", in.name)
		switch {
		case pvv != nil:
			r.Eval("fault-issuer-input", "panic")
			r.PanicSeen(mon.PanicSite(stack))
		case err != nil:
			r.Eval("fault-issuer-input", "reject")
		default:
			r.Eval("fault-issuer-input", "accept")
			_ = msg
			if in.name == "non-nil attribute at blind index" && in.attrs[0] != nil {
				r.Violation("C06/issuer-overwrites-known-attribute", "IssueSignature accepts a non-nil attribute at a random-blind index ("+cfg.String()+")", map[string]any{"config": cfg.String()})
			}
		}
	}
}

func bitlensNil(s []*big.Int) []int {
	out := make([]int, len(s))
	for i, v := range s {
		if v == nil {
			out[i] = -1
		} else {
			out[i] = v.BitLen()
		}
	}
	return out
}

func fillNil(s []*big.Int) []*big.Int {
	out := cloneInts(s)
	for i := range out {
		if out[i] == nil {
			out[i] = bi(7)
		}
	}
	if len(out) > 0 && out[0] == nil {
		out[0] = bi(7)
	}
	return out
}

func cloneWitnessFull(w *revocation.Witness) *revocation.Witness {
	if w == nil {
		return nil
	}
	c := cloneWitness(w)
	c.SignedAccumulator.Accumulator = w.SignedAccumulator.Accumulator
	return c
}
