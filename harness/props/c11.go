package props

import (
	"sort"
	"encoding/base64"
	"encoding/json"
	"fmt"
	"math/rand/v2"
	"reflect"
	"runtime"
	"strings"
	"sync/atomic"

	"github.com/privacybydesign/gabi"
	"github.com/privacybydesign/gabi/big"
	"github.com/privacybydesign/gabi/gabikeys"
	"github.com/privacybydesign/gabi/revocation"

	"verifharness/mon"
	"verifharness/refimpl"
	"verifharness/world"
)

func init() {
	Registry["C11"] = &Check{
		Level: "exploration",
		Rule: "(a) histories: every interleaving up to depth 4 (quick) / 6 (thorough) of {prepare cache, revoke other, revoke self, update witness, prove} on one credential, in lock-step with the accumulator model: proving succeeds, the proof verifies, and the accumulator (index, time, value) the verifier decodes from the accepted proof is the model's accumulator of the witness at proving time; " +
			"(b) the rare-event side of completeness: volume of honest proofs and a forcing construction (legitimately small randomiser on another hidden attribute, verified 64 times); " +
			"(c) adversarial proofs built with independent reference provers: false statement (revoked witness against the new accumulator), foreign witness, witness attached to another hidden attribute, transplant via attribute split, alpha shifted by k*ord across its bound, every single-field alteration of C_r, C_u, responses, signed accumulator (older/newer/foreign/corrupted); " +
			"non-trivial = the verifier was entered with a proof carrying a non-revocation part; distinct by (history | family, operator) hash; oracle on acceptance: proved witness value is the hidden revocation attribute of that credential, u^e = nu of the embedded accumulator, accumulator validly signed by the verification key, alpha within its bound",
		Run: runC11,
	}
}

var c11Bound = pow2(580) // 2^(AttributeSize+ChallengeLength+ZkStat+1)

// countSmall counts hidden responses below the bound the verifier uses to guess the revocation attribute.
func countSmall(d *gabi.ProofD) int {
	n := 0
	for _, v := range d.AResponses {
		if v != nil && v.Cmp(c11Bound) < 0 {
			n++
		}
	}
	return n
}

// c11Truth is what an accepted non-revocation proof is allowed to mean.
type c11Truth struct {
	cred *world.Cred
	u, e *big.Int // witness actually used by the prover
}

// c11Accepted applies the acceptance oracle to a verified proof (d is the object the verifier worked on).
func c11Accepted(r *mon.Run, family, desc string, d *gabi.ProofD, t c11Truth) {
	pk := t.cred.Key.PK
	fail := func(sig, msg string) {
		r.Violation(sig, msg+" ("+family+": "+desc+")", map[string]any{"family": family, "case": desc, "proof": dumpD(d), "cred": dumpCred(t.cred), "witness_u": dumpInt(t.u), "witness_e": dumpInt(t.e)})
	}
	nr := d.NonRevocationProof
	if nr == nil {
		return
	}
	acc, err := refimpl.AccFromSigned(pk, nr.SignedAccumulator.Data, nr.SignedAccumulator.PKCounter)
	if err != nil {
		fail("C11/accepted-with-unsigned-accumulator", "accepted proof embeds an accumulator that is not validly signed by the verification key: "+err.Error())
		return
	}
	if got := nr.SignedAccumulator.Accumulator; got == nil || got.Index != acc.Index || got.Time != acc.Time || got.Nu.Cmp(acc.Nu) != 0 {
		fail("C11/verifier-reads-wrong-accumulator", "the accumulator the verifier reads from the accepted proof differs from the signed bytes")
		return
	}
	if new(big.Int).Exp(t.u, t.e, pk.N).Cmp(acc.Nu) != 0 {
		fail("C11/accepted-false-nonrevocation-statement/"+family, fmt.Sprintf("accepted although the prover's witness does not satisfy u^e = nu for the embedded accumulator (index %d)", acc.Index))
		return
	}
	hiddenMatch := false
	for i := range t.cred.Ledger {
		// "the attribute hidden in that same credential": the revocation attribute, not any hidden attribute of equal value
		if _, hid := d.AResponses[i]; hid && i == t.cred.RevIdx && t.cred.NormLedger(i).Cmp(t.e) == 0 {
			hiddenMatch = true
		}
	}
	if !hiddenMatch {
		for i := range t.cred.Ledger {
			if _, hid := d.AResponses[i]; hid && i != t.cred.RevIdx && t.cred.NormLedger(i).Cmp(t.e) == 0 {
				fail("C11/accepted-witness-on-other-attribute", fmt.Sprintf("accepted although the witness value proved (a true u^e = nu) is hidden attribute %d of the credential and not its revocation attribute %d: the credential's own witness value plays no part in the accepted proof", i, t.cred.RevIdx))
				return
			}
		}
		fail("C11/accepted-witness-not-in-credential/"+family, "accepted although the proved witness value is not the hidden revocation attribute of the credential the proof was made from")
		return
	}
	for _, v := range d.AResponses {
		_ = v
	}
}

func runC11(r *mon.Run) {
	r.Assume("accumulator times are set by the harness; proofs are verified on as-received copies, so the accumulator the verifier reads is decoded from the signed bytes")
	keys := []string{"toy256a"}
	if r.Thorough() {
		keys = []string{"toy256a", "toy512a", "fix1024a"}
	}
	// (a) histories
	ops := []byte("POSUTV")
	var seqs []string
	depth := r.Pick(4, 6)
	var rec func(cur []byte)
	rec = func(cur []byte) {
		if len(cur) > 0 && cur[len(cur)-1] == 'V' {
			seqs = append(seqs, string(cur))
		}
		if len(cur) == depth {
			return
		}
		for _, o := range ops {
			rec(append(append([]byte{}, cur...), o))
		}
	}
	rec(nil)
	exhaustiveN := len(seqs)
	rng := r.Rand("hist")
	if !r.Thorough() {
		for i := 0; i < 1200; i++ {
			b := make([]byte, 6)
			for k := range b {
				b[k] = ops[rng.IntN(len(ops))]
			}
			b[5] = 'V'
			seqs = append(seqs, string(b))
		}
	}
	// longer structured histories beyond the enumerated depth: a prepared commitment refreshed several times (a proof
	// consumes it only at the end), refreshes interleaved with re-signed accumulators, proofs in between
	// sessions spanning other operations: builder created (B), revocations / witness updates / re-signing, proof finished (F)
	for _, sq := range []string{"BOUF", "BOUFV", "PBOUF", "BTUF", "BOUOUF", "BSF", "OUBOUFV", "BOUVF", "PBOUPF", "BOTUF", "BUF", "BOF", "POUBOUTUF", "BPF", "BOUPV F"} {
		seqs = append(seqs, strings.ReplaceAll(sq, " ", ""))
	}
	for i := 0; i < r.Pick(60, 600); i++ {
		n := 4 + rng.IntN(7)
		b := make([]byte, n)
		for k := range b {
			b[k] = "POUTVBF"[rng.IntN(7)]
		}
		b[0], b[n-1] = 'B', 'F'
		seqs = append(seqs, string(b))
	}
	for _, sq := range []string{"POUPOUV", "POUPOUPOUV", "POUOUPV", "POUTPOUV", "POUPOUVPOUPOUV", "PPOUPOUV", "POOUPOOUPV", "POUPTOUPV", "POUVOUPOUPV", "PTPOUPOUPTV"} {
		seqs = append(seqs, sq)
	}
	for i := 0; i < r.Pick(60, 600); i++ {
		n := 7 + rng.IntN(6)
		b := make([]byte, n)
		for k := range b {
			b[k] = "POUPOUTV"[rng.IntN(8)] // no self-revocation: the longer histories are about refreshing
		}
		b[n-1] = 'V'
		seqs = append(seqs, string(b))
	}
	r.Set("history_sequences", len(seqs))
	r.Set("history_sequences_exhaustive_part", exhaustiveN)
	r.Set("exhaustive_scope", fmt.Sprintf("all operation sequences over {P=prepare,O=revoke other,S=revoke self,U=update witness,T=issuer re-signs the current accumulator with a later time,V=prove} of length <= %d that end in a proof; plus structured and random sequences with B=begin session (builder), F=finish it", depth))
	r.Exhaustive(true)
	var amb atomic.Int64
	mon.Parallel(len(seqs), runtime.NumCPU(), func(i int) {
		key := world.Fixture(keys[i%len(keys)])
		if i >= exhaustiveN || keys[i%len(keys)] != "toy256a" {
			// fixture keys only for a sample
			if keys[i%len(keys)] != "toy256a" && i%7 != 0 {
				key = world.Fixture("toy256a")
			}
		}
		c11History(r, key, seqs[i], &amb)
	})
	// (b) volume + forcing
	c11Volume(r, world.Fixture("toy256a"), r.Pick(6000, 120000), &amb)
	c11Forcing(r, world.Fixture("toy256a"), r.Pick(6, 40))
	r.Set("honest_rejections_with_ambiguous_index", amb.Load())
	// (c) adversarial
	njobs := r.Pick(60, 1200)
	seeds := make([]uint64, njobs)
	for i := range seeds {
		seeds[i] = rng.Uint64()
	}
	mon.Parallel(njobs, runtime.NumCPU(), func(i int) {
		k := keys[i%len(keys)]
		if k == "fix1024a" && i%5 != 0 {
			k = "toy256a"
		}
		c11Adversarial(r, world.Fixture(k), rand.New(rand.NewPCG(seeds[i], 11)), i)
	})
	r.FloorAccept("history-prove", 300)
	r.FloorAccept("volume", 1000)
	r.FloorAccept("ref-honest", 20)
	r.FloorFam("adv-false-statement", 20)
	r.FloorFam("adv-foreign-witness", 20)
	r.FloorFam("adv-alter", 500)
	r.FloorFam("adv-alpha-shift", 20)
	r.FloorFam("adv-degenerate-commitments", 20)
	r.FloorFam("adv-wire", 100)
}

// c11Rejected classifies the rejection of a proof that ought to verify.
func c11Rejected(r *mon.Run, where, desc string, d *gabi.ProofD, cred *world.Cred, amb *atomic.Int64) {
	if countSmall(d) >= 2 {
		if amb != nil {
			amb.Add(1)
		}
		r.Violation("C11/ambiguous-revocation-index", fmt.Sprintf("honest non-revocation proof rejected: %d hidden responses lie below 2^580 and the verifier picked the wrong one as revocation attribute (%s)", countSmall(d), where),
			map[string]any{"where": where, "case": desc, "proof": dumpD(d), "cred": dumpCred(cred)})
		return
	}
	r.Violation("C11/honest-nonrevocation-proof-rejected", "honest non-revocation proof from a valid witness does not verify ("+where+": "+desc+")",
		map[string]any{"where": where, "case": desc, "proof": dumpD(d), "cred": dumpCred(cred)})
}

func c11History(r *mon.Run, key *world.Key, seq string, amb *atomic.Int64) {
	pk := key.PK
	rev, err := world.NewRev(key)
	if err != nil {
		panic(err)
	}
	cred, err := key.SignCredRev([]*big.Int{bi(123456789), bi(42), bi(77)}, rev)
	if err != nil {
		panic(err)
	}
	w := cred.C.NonRevocationWitness
	wi, selfAt := 0, 0
	wTime := rev.Accs[0].Time
	r.Distinct("hist", key.Name, seq)
	// a session in progress: the builder (and with it the non-revocation commitment) exists since 'B', the proof is made at 'F'
	var pend *gabi.DisclosureProofBuilder
	var pendU *big.Int
	var pendWi int
	// signing times of accumulator pendWi that the witness held from 'B' on: a same-index re-signing adopted by the witness during
	// the session is the same accumulator value, and a proof showing either signature tells the truth
	var pendTimes map[int64]bool
	for step, op := range []byte(seq) {
		desc := fmt.Sprintf("key=%s seq=%s step=%d", key.Name, seq, step)
		switch op {
		case 'B':
			b, err := cred.C.CreateDisclosureProofBuilder([]int{1}, nil, true)
			if err != nil {
				r.Eval("history-prove", "error")
				r.Violation("C11/proving-fails-with-valid-witness", "CreateDisclosureProofBuilder failed although the witness satisfies u^e = nu: "+err.Error()+" ("+desc+")", map[string]any{"case": desc})
				return
			}
			pend, pendU, pendWi, pendTimes = b, cp(w.U), wi, map[int64]bool{wTime: true}
		case 'F':
			if pend == nil {
				continue
			}
			ctx, nonce := bi(int64(2000+step)), bi(int64(9+step))
			list, err := gabi.ProofBuilderList{pend}.BuildProofList(ctx, nonce, false)
			pend = nil
			if err != nil || len(list) != 1 {
				r.Eval("history-prove", "error")
				r.Violation("C11/proving-fails-with-valid-witness", fmt.Sprintf("a session begun with a valid witness cannot be finished: %v (%s)", err, desc), map[string]any{"case": desc})
				return
			}
			d := list[0].(*gabi.ProofD)
			recv := cloneD(d)
			ok, pv, _ := verifyList(gabi.ProofList{recv}, []*gabikeys.PublicKey{pk}, ctx, nonce, false, nil)
			r.Eval("history-prove", outcome(ok, pv))
			r.Add("sessions_finished_after_other_operations", 1)
			if !ok {
				c11Rejected(r, "history", desc+" (session begun at witness index "+fmt.Sprint(pendWi)+")", d, cred, amb)
				return
			}
			c11Accepted(r, "history", desc, recv, c11Truth{cred, pendU, w.E})
			got := recv.NonRevocationProof.SignedAccumulator.Accumulator
			if got.Index != uint64(pendWi) || !pendTimes[got.Time] || got.Nu.Cmp(rev.Accs[pendWi].Nu) != 0 {
				r.Violation("C11/proof-made-against-other-accumulator", fmt.Sprintf("verifier reads accumulator index %d time %d from the accepted proof; the commitment was made at index %d (signing times held since: %v) (%s)", got.Index, got.Time, pendWi, sortedTimes(pendTimes), desc),
					map[string]any{"case": desc, "proof": dumpD(d)})
				return
			}
		case 'P':
			if err := cred.C.NonrevPrepareCache(); err != nil {
				r.Violation("C11/prepare-cache-fails", "NonrevPrepareCache failed on a valid witness: "+err.Error()+" ("+desc+")", map[string]any{"case": desc})
				return
			}
		case 'O':
			if _, _, err := rev.RevokeRandom(); err != nil {
				panic(err)
			}
		case 'S':
			if selfAt == 0 {
				at, err := rev.Revoke(w.E)
				if err != nil {
					panic(err)
				}
				selfAt = at
			} else if _, _, err := rev.RevokeRandom(); err != nil {
				panic(err)
			}
		case 'U':
			cur := rev.Cur()
			upd := rev.Update(wi+1, cur)
			err := w.Update(pk, upd)
			wantRevoked := selfAt > wi && selfAt <= cur
			switch {
			case wantRevoked && err != revocation.ErrorRevoked:
				r.Violation("C11/revoked-witness-update-not-refused", fmt.Sprintf("update covering the witness' own revocation returned %v (%s)", err, desc), map[string]any{"case": desc})
				return
			case !wantRevoked && err != nil:
				r.Violation("C11/witness-update-fails", fmt.Sprintf("update of a non-revoked witness failed: %v (%s)", err, desc), map[string]any{"case": desc})
				return
			case !wantRevoked:
				if cur > wi || rev.Accs[cur].Time > wTime {
					wTime = rev.Accs[cur].Time
				}
				wi = cur
				if pend != nil && wi == pendWi {
					pendTimes[wTime] = true
				}
			}
		case 'T':
			if err := rev.Retime(3600); err != nil {
				panic(err)
			}
		case 'V':
			ctx, nonce := bi(int64(1000+step)), bi(int64(7+step))
			d, err := cred.C.CreateDisclosureProof([]int{1}, nil, true, ctx, nonce)
			if err != nil {
				r.Eval("history-prove", "error")
				r.Violation("C11/proving-fails-with-valid-witness", "CreateDisclosureProof failed although the witness satisfies u^e = nu: "+err.Error()+" ("+desc+")", map[string]any{"case": desc})
				return
			}
			recv := cloneD(d)
			ok, pv, _ := verifyList(gabi.ProofList{recv}, []*gabikeys.PublicKey{pk}, ctx, nonce, false, nil)
			r.Eval("history-prove", outcome(ok, pv))
			if !ok {
				c11Rejected(r, "history", desc, d, cred, amb)
				return
			}
			c11Accepted(r, "history", desc, recv, c11Truth{cred, w.U, w.E})
			got := recv.NonRevocationProof.SignedAccumulator.Accumulator
			want := rev.Accs[wi]
			if got.Index != uint64(wi) || got.Time != wTime || got.Nu.Cmp(want.Nu) != 0 {
				r.Violation("C11/proof-made-against-other-accumulator", fmt.Sprintf("verifier reads accumulator index %d time %d from the accepted proof; the witness was at index %d time %d when proving (%s)", got.Index, got.Time, wi, wTime, desc),
					map[string]any{"case": desc, "proof": dumpD(d)})
				return
			}
		}
	}
}

func sortedTimes(m map[int64]bool) []int64 {
	var out []int64
	for t := range m {
		out = append(out, t)
	}
	sort.Slice(out, func(i, j int) bool { return out[i] < out[j] })
	return out
}

func c11Volume(r *mon.Run, key *world.Key, n int, amb *atomic.Int64) {
	pk := key.PK
	rev, _ := world.NewRev(key)
	workers := runtime.NumCPU()
	creds := make([]*world.Cred, workers)
	for i := range creds {
		c, err := key.SignCredRev([]*big.Int{bi(int64(1000 + i)), bi(5), bi(6), bi(7), bi(8)}, rev)
		if err != nil {
			panic(err)
		}
		creds[i] = c
	}
	var next atomic.Int64
	mon.Parallel(workers, workers, func(wk int) {
		cred := creds[wk]
		for {
			i := int(next.Add(1))
			if i > n {
				return
			}
			ctx, nonce := bi(int64(i)), bi(int64(i+1))
			d, err := cred.C.CreateDisclosureProof([]int{}, nil, true, ctx, nonce)
			if err != nil {
				r.Eval("volume", "error")
				continue
			}
			recv := cloneD(d)
			ok, pv, _ := verifyList(gabi.ProofList{recv}, []*gabikeys.PublicKey{pk}, ctx, nonce, false, nil)
			r.Eval("volume", outcome(ok, pv))
			if !ok {
				c11Rejected(r, "volume", fmt.Sprintf("proof #%d, 6 hidden attributes", i), d, cred, amb)
			}
		}
	})
	r.Distinct("volume", n)
}

// refNonrevProof assembles a disclosure proof with a non-revocation part from the two reference provers.
func refNonrevProof(cred *world.Cred, D []int, attachIdx int, u, e, nu *big.Int, sacc *revocation.SignedAccumulator, ctx, nonce *big.Int, tweak func(p *refimpl.DProver)) *gabi.ProofD {
	pk := cred.Key.PK
	dis, hid := hiddenOf(cred, D)
	p := refimpl.NewDProver(pk, cred.C.Signature, dis, hid)
	alphaRand := refimpl.NewAlphaRandomizer()
	p.R[attachIdx] = alphaRand
	if tweak != nil {
		tweak(p)
	}
	nr := refimpl.NewNRProver(pk, u, e, nu, sacc, p.R[attachIdx])
	p.Extra = nr.Commit()
	c := refimpl.Challenge(ctx, nonce, p.Commit(), false)
	d := p.Respond(c)
	d.NonRevocationProof = nr.Respond(c)
	return d
}

// c11Forcing: an honest prover may legitimately draw a small randomiser for another hidden attribute; such a proof must verify every time.
func c11Forcing(r *mon.Run, key *world.Key, n int) {
	pk := key.PK
	rev, _ := world.NewRev(key)
	for i := 0; i < n; i++ {
		cred, err := key.SignCredRev([]*big.Int{bi(int64(555 + i)), bi(5), bi(6)}, rev)
		if err != nil {
			panic(err)
		}
		w := cred.C.NonRevocationWitness
		ctx, nonce := bi(int64(900+i)), bi(int64(17+i))
		small := 1 + i%2
		d := refNonrevProof(cred, nil, cred.RevIdx, w.U, w.E, rev.Accs[0].Nu, w.SignedAccumulator, ctx, nonce, func(p *refimpl.DProver) {
			p.R[small] = refimpl.RandBits(560) // inside the honest range [0, 2^LmCommit), just an unlikely draw
		})
		rejected := 0
		for k := 0; k < 64; k++ {
			recv := cloneD(d)
			ok, pv, _ := verifyList(gabi.ProofList{recv}, []*gabikeys.PublicKey{pk}, ctx, nonce, false, nil)
			r.Eval("forcing", outcome(ok, pv))
			if !ok {
				rejected++
			} else {
				c11Accepted(r, "forcing", fmt.Sprintf("forced #%d", i), recv, c11Truth{cred, w.U, w.E})
			}
		}
		r.Distinct("forcing", i)
		if rejected > 0 {
			c11Rejected(r, "forcing", fmt.Sprintf("honest-range randomiser of 560 bits on hidden attribute %d: rejected %d of 64 verifications of the same proof", small, rejected), d, cred, nil)
		}
	}
}

func c11Adversarial(r *mon.Run, key *world.Key, jr *rand.Rand, idx int) {
	pk := key.PK
	rev, err := world.NewRev(key)
	if err != nil {
		panic(err)
	}
	fkey := world.Fixture("toy256b")
	frev, _ := world.NewRev(fkey)
	credA, _ := key.SignCredRev([]*big.Int{randBig(jr, 250), bi(int64(100 + jr.IntN(900))), randBig(jr, 190)}, rev)
	credB, _ := key.SignCredRev([]*big.Int{randBig(jr, 250), bi(int64(100 + jr.IntN(900))), randBig(jr, 190)}, rev)
	wA, wB := credA.C.NonRevocationWitness, credB.C.NonRevocationWitness
	ctx, nonce := freshNonces(jr)
	pks := []*gabikeys.PublicKey{pk}
	var warm *gabi.ProofD
	try := func(family, desc string, d *gabi.ProofD, t c11Truth, mustAccept bool) bool {
		r.Distinct(family, desc, idx)
		recv := cloneD(d)
		ok, pv, stack := verifyList(gabi.ProofList{recv}, pks, ctx, nonce, false, nil)
		r.Eval(family, outcome(ok, pv))
		if pv != nil {
			r.PanicSeen(mon.PanicSite(stack))
		}
		if ok {
			c11Accepted(r, family, desc, recv, t)
			if a := recv.NonRevocationProof; a != nil {
				if al := a.Responses["alpha"]; al != nil && al.Cmp(pow2(580)) > 0 {
					r.Violation("C11/alpha-out-of-range-accepted", "accepted with an alpha response above B*2^(k'+k''+1) ("+family+": "+desc+")", map[string]any{"proof": dumpD(d)})
				}
			}
		} else if mustAccept {
			c11Rejected(r, family, desc, d, t.cred, nil)
		}
		if !ok && pv == nil && countSmall(recv) < 2 {
			// (proofs with two candidate revocation responses are left out: their verdict depends on map order, known finding)
			// a verifier trying again on the object it has just refused (a retry; Verify followed by ProofList.Verify): what the first
			// attempt left in the object must not make the second one accept
			ok2, pv2, _ := verifyList(gabi.ProofList{recv}, pks, ctx, nonce, false, nil)
			r.Eval(family+"/reverify", outcome(ok2, pv2))
			if ok2 {
				c11Accepted(r, family+"-reverify", desc+" (second verification of the refused object)", recv, t)
				r.Violation("C11/rejected-then-accepted-on-reverify", "a proof refused at first verification is accepted when the same object is verified again ("+family+": "+desc+")",
					map[string]any{"family": family, "case": desc, "proof": dumpD(d)})
			}
		}
		// object history: the same proof placed into an object that verified an honest proof of credential B before
		if warm != nil && !ok {
			w := cloneD(warm)
			if okw, _, _ := verifyList(gabi.ProofList{w}, pks, ctx, nonce, false, nil); okw {
				src := cloneD(d)
				w.C, w.A, w.EResponse, w.VResponse, w.AResponses, w.ADisclosed, w.NonRevocationProof, w.RangeProofs = src.C, src.A, src.EResponse, src.VResponse, src.AResponses, src.ADisclosed, src.NonRevocationProof, src.RangeProofs
				ok3, pv3, _ := verifyList(gabi.ProofList{w}, pks, ctx, nonce, false, nil)
				r.Eval(family+"/reused-object", outcome(ok3, pv3))
				if ok3 {
					c11Accepted(r, family+"-reused-object", desc, w, t)
					r.Violation("C11/verdict-depends-on-object-history", "a proof rejected in a fresh object is accepted in an object that verified another proof before ("+family+": "+desc+")",
						map[string]any{"family": family, "case": desc, "proof": dumpD(d)})
				}
			}
		}
		return ok
	}
	// reference prover, honest mode
	honest := refNonrevProof(credA, []int{1}, credA.RevIdx, wA.U, wA.E, rev.Accs[0].Nu, wA.SignedAccumulator, ctx, nonce, nil)
	try("ref-honest", "reference provers, honest", honest, c11Truth{credA, wA.U, wA.E}, true)

	// revoke A, move the accumulator on; B stays valid and is updated
	at, _ := rev.Revoke(wA.E)
	rev.RevokeRandom()
	cur := rev.Cur()
	if err := wB.Update(pk, rev.Update(1, cur)); err != nil {
		panic(err)
	}
	// false statement: A's old u against the new accumulator
	d := refNonrevProof(credA, []int{1}, credA.RevIdx, wA.U, wA.E, rev.Accs[cur].Nu, rev.SAccs[cur], ctx, nonce, nil)
	try("adv-false-statement", fmt.Sprintf("revoked at %d, old u against accumulator %d", at, cur), d, c11Truth{credA, wA.U, wA.E}, false)
	d = refNonrevProof(credA, []int{1}, credA.RevIdx, wA.U, wA.E, rev.Accs[at].Nu, rev.SAccs[at], ctx, nonce, nil)
	try("adv-false-statement", "old u against the accumulator that removed it", d, c11Truth{credA, wA.U, wA.E}, false)
	// claimed nu of the old accumulator but signed accumulator of the new one
	d = refNonrevProof(credA, []int{1}, credA.RevIdx, wA.U, wA.E, rev.Accs[0].Nu, rev.SAccs[cur], ctx, nonce, nil)
	try("adv-false-statement", "commitments for the old value, signed accumulator of the new index", d, c11Truth{credA, wA.U, wA.E}, false)
	// degenerate commitments: C_r = C_u = 0 (or N) are not group elements; every reconstructed commitment collapses to 0, so the
	// prover needs no witness at all. The revoked credential A against the NEW accumulator:
	for _, fc := range []*big.Int{bi(0), cp(pk.N)} {
		dis, hid := hiddenOf(credA, []int{1})
		p := refimpl.NewDProver(pk, credA.C.Signature, dis, hid)
		ar := refimpl.NewAlphaRandomizer()
		p.R[credA.RevIdx] = ar
		nr := refimpl.NewNRProver(pk, wA.U, wA.E, rev.Accs[cur].Nu, rev.SAccs[cur], ar)
		nr.ForceC = fc
		p.Extra = nr.Commit()
		c := refimpl.Challenge(ctx, nonce, p.Commit(), false)
		dd := p.Respond(c)
		dd.NonRevocationProof = nr.Respond(c)
		try("adv-degenerate-commitments", fmt.Sprintf("revoked credential, C_r = C_u = %s against accumulator %d", map[bool]string{true: "0", false: "N"}[fc.Sign() == 0], cur), dd, c11Truth{credA, wA.U, wA.E}, false)
	}
	// one commitment alone degenerate (the other honest): with C_u = k*N only the relation that involves the accumulator
	// collapses - which is the one a revoked holder cannot satisfy
	for _, side := range []string{"C_u", "C_r"} {
		for _, k := range []int64{0, 1, 2, 5} {
			dis, hid := hiddenOf(credA, []int{1})
			p := refimpl.NewDProver(pk, credA.C.Signature, dis, hid)
			ar := refimpl.NewAlphaRandomizer()
			p.R[credA.RevIdx] = ar
			nr := refimpl.NewNRProver(pk, wA.U, wA.E, rev.Accs[cur].Nu, rev.SAccs[cur], ar)
			if side == "C_u" {
				nr.ForceCu = mul(pk.N, bi(k))
			} else {
				nr.ForceCr = mul(pk.N, bi(k))
			}
			p.Extra = nr.Commit()
			c := refimpl.Challenge(ctx, nonce, p.Commit(), false)
			dd := p.Respond(c)
			dd.NonRevocationProof = nr.Respond(c)
			try("adv-degenerate-commitments", fmt.Sprintf("revoked credential, %s = %d*N alone (other commitment honest) against accumulator %d", side, k, cur), dd, c11Truth{credA, wA.U, wA.E}, false)
		}
	}
	// stale but valid: old witness with its own old accumulator (legitimately accepted; the verifier sees index 0)
	d = refNonrevProof(credA, []int{1}, credA.RevIdx, wA.U, wA.E, rev.Accs[0].Nu, rev.SAccs[0], ctx, nonce, nil)
	try("adv-stale-valid", "old witness with its old accumulator", d, c11Truth{credA, wA.U, wA.E}, false)

	// foreign witness: B's valid witness inside a proof of credential A
	for _, attach := range []int{credA.RevIdx, 2, 0} {
		d = refNonrevProof(credA, []int{1}, attach, wB.U, wB.E, rev.Accs[cur].Nu, rev.SAccs[cur], ctx, nonce, nil)
		try("adv-foreign-witness", fmt.Sprintf("B's witness attached to A's hidden index %d", attach), d, c11Truth{credA, wB.U, wB.E}, false)
	}
	// foreign witness with its own alpha: the non-revocation part is proved entirely for B's witness value (alpha response
	// = own randomiser + c*e_B, sent along explicitly), independently of credential A, whose proof only has to offer one hidden
	// response small enough to be taken for a revocation attribute. The verifier must take alpha from the credential proof.
	for _, small := range []int{credA.RevIdx, 2} {
		dis, hid := hiddenOf(credA, []int{1})
		p := refimpl.NewDProver(pk, credA.C.Signature, dis, hid)
		p.R[small] = refimpl.RandBits(500) // within the honest range, below the 2^580 selection bound
		ownAlpha := refimpl.NewAlphaRandomizer()
		nr := refimpl.NewNRProver(pk, wB.U, wB.E, rev.Accs[cur].Nu, rev.SAccs[cur], ownAlpha)
		p.Extra = nr.Commit()
		c := refimpl.Challenge(ctx, nonce, p.Commit(), false)
		dd := p.Respond(c)
		dd.NonRevocationProof = nr.Respond(c)
		dd.NonRevocationProof.Responses["alpha"] = nr.AlphaResponse(c)
		try("adv-foreign-witness", fmt.Sprintf("B's witness proved with its own alpha response, A's hidden index %d given a short randomiser", small), dd, c11Truth{credA, wB.U, wB.E}, false)
	}
	// witness proved on another hidden attribute than the revocation attribute. The verifier takes whichever hidden response is
	// short for the revocation attribute, so a REVOKED credential needs only some hidden attribute m for which its holder knows
	// u with u^m = nu, and gives its real revocation attribute a full-size randomiser:
	//  (a) m = 1 (e.g. an empty-but-present string in IRMA's encoding): (u, e) = (nu, 1) fits every accumulator;
	//  (b) attribute 0, the holder-chosen secret, set to the witness value e_B of another, unrevoked credential of the same
	//      holder: B's witness is proved inside the revoked credential (a transplant).
	{
		large := func(c *world.Cred) func(p *refimpl.DProver) {
			return func(p *refimpl.DProver) {
				p.R[c.RevIdx] = add(pow2(pk.Params.LmCommit-1), refimpl.RandBits(pk.Params.LmCommit-1))
			}
		}
		credT, errT := key.SignCredRev([]*big.Int{randBig(jr, 250), bi(int64(100 + jr.IntN(900))), bi(1)}, rev)
		credS, errS := key.SignCredRev([]*big.Int{cp(wB.E), bi(int64(100 + jr.IntN(900))), randBig(jr, 190)}, rev)
		if errT == nil && errS == nil {
			_, errR := rev.Revoke(credT.C.NonRevocationWitness.E)
			_, errR2 := rev.Revoke(credS.C.NonRevocationWitness.E)
			cur2 := rev.Cur()
			if errR == nil && errR2 == nil && wB.Update(pk, rev.Update(cur+1, cur2)) == nil {
				nu := rev.Accs[cur2].Nu
				d = refNonrevProof(credT, []int{1}, 2, cp(nu), bi(1), nu, rev.SAccs[cur2], ctx, nonce, large(credT))
				try("adv-witness-on-other-attribute", "revoked credential, (u,e) = (nu,1) proved on a hidden attribute equal to 1", d, c11Truth{credT, cp(nu), bi(1)}, false)
				d = refNonrevProof(credS, []int{1}, 0, wB.U, wB.E, nu, rev.SAccs[cur2], ctx, nonce, large(credS))
				try("adv-witness-on-other-attribute", "revoked credential whose secret equals the witness value of another, unrevoked credential: that witness proved on attribute 0", d, c11Truth{credS, wB.U, wB.E}, false)
				cur = cur2
			}
		}
	}
	// foreign issuer's witness and accumulator
	wf, _ := frev.NewWitness()
	d = refNonrevProof(credA, []int{1}, credA.RevIdx, wf.U, wf.E, frev.Accs[0].Nu, frev.SAccs[0], ctx, nonce, nil)
	try("adv-foreign-witness", "witness and accumulator of another issuer", d, c11Truth{credA, wf.U, wf.E}, false)
	// transplant via split: A's attribute 2 reported as (m2 - e_B) disclosed + e_B hidden, B's witness proved on the hidden remainder
	{
		dis, hid := hiddenOf(credA, []int{1})
		m2 := credA.NormLedger(2)
		if m2.Cmp(wB.E) > 0 {
			dis[2] = sub(m2, wB.E)
			hid[2] = cp(wB.E)
			p := refimpl.NewDProver(pk, credA.C.Signature, dis, hid)
			ar := refimpl.NewAlphaRandomizer()
			p.R[2] = ar
			p.R[credA.RevIdx] = refimpl.RandBits(592) // keep A's own revocation attribute out of the verifier's guess
			nr := refimpl.NewNRProver(pk, wB.U, wB.E, rev.Accs[cur].Nu, rev.SAccs[cur], ar)
			p.Extra = nr.Commit()
			c := refimpl.Challenge(ctx, nonce, p.Commit(), false)
			dd := p.Respond(c)
			dd.NonRevocationProof = nr.Respond(c)
			for k := 0; k < 4; k++ {
				try("adv-transplant-split", "B's witness proved on a split-off part of A's attribute 2", dd, c11Truth{credA, wB.U, wB.E}, false)
			}
		}
	}
	// library proof of the valid credential B, then single-field alterations
	lib, err := credB.C.CreateDisclosureProof([]int{1}, nil, true, ctx, nonce)
	if err != nil {
		return
	}
	tB := c11Truth{credB, wB.U, wB.E}
	if !try("lib-honest", "library proof of B", lib, tB, true) {
		return
	}
	warm = lib
	if idx%17 == 0 {
		r.Sample(map[string]any{"adversarial_job": idx, "key": key.Name, "A_revoked_at": at, "accumulator_index": cur})
	}
	ord := key.Ord
	alter := func(desc string, f func(d *gabi.ProofD)) {
		dd := cloneD(lib)
		f(dd)
		try("adv-alter", desc, dd, tB, false)
	}
	alter("C_r+1", func(d *gabi.ProofD) { d.NonRevocationProof.Cr.Add(d.NonRevocationProof.Cr, bigOne) })
	alter("C_u+1", func(d *gabi.ProofD) { d.NonRevocationProof.Cu.Add(d.NonRevocationProof.Cu, bigOne) })
	alter("C_r:=C_u", func(d *gabi.ProofD) { d.NonRevocationProof.Cr = cp(d.NonRevocationProof.Cu) })
	alter("C_u*h (other r2)", func(d *gabi.ProofD) {
		d.NonRevocationProof.Cu = new(big.Int).Mod(mul(d.NonRevocationProof.Cu, pk.H), pk.N)
	})
	for _, name := range []string{"beta", "delta", "epsilon", "zeta"} {
		name := name
		alter(name+"+1", func(d *gabi.ProofD) {
			d.NonRevocationProof.Responses[name] = add(d.NonRevocationProof.Responses[name], bigOne)
		})
		alter(name+"-1", func(d *gabi.ProofD) {
			d.NonRevocationProof.Responses[name] = sub(d.NonRevocationProof.Responses[name], bigOne)
		})
		alter(name+"+ord (equation-preserving)", func(d *gabi.ProofD) {
			d.NonRevocationProof.Responses[name] = add(d.NonRevocationProof.Responses[name], ord)
		})
		alter(name+" zero", func(d *gabi.ProofD) { d.NonRevocationProof.Responses[name] = bi(0) })
	}
	alter("beta<->delta", func(d *gabi.ProofD) {
		rs := d.NonRevocationProof.Responses
		rs["beta"], rs["delta"] = rs["delta"], rs["beta"]
	})
	alter("alpha supplied by the prover", func(d *gabi.ProofD) { d.NonRevocationProof.Responses["alpha"] = bi(12345) })
	alter("revocation response +1", func(d *gabi.ProofD) { d.AResponses[credB.RevIdx] = add(d.AResponses[credB.RevIdx], bigOne) })
	alter("sacc older (index 0)", func(d *gabi.ProofD) { d.NonRevocationProof.SignedAccumulator = cloneSAcc(rev.SAccs[0]) })
	alter("sacc older (index cur-1)", func(d *gabi.ProofD) { d.NonRevocationProof.SignedAccumulator = cloneSAcc(rev.SAccs[cur-1]) })
	alter("sacc re-signed same index other time (authentic)", func(d *gabi.ProofD) {
		s, _ := rev.Resign(cur, 1_900_000_000)
		d.NonRevocationProof.SignedAccumulator = cloneSAcc(s)
	})
	alter("sacc of foreign issuer", func(d *gabi.ProofD) { d.NonRevocationProof.SignedAccumulator = cloneSAcc(frev.SAccs[0]) })
	alter("sacc self-signed by foreign key, same content", func(d *gabi.ProofD) {
		acc := *rev.Accs[cur]
		s, _ := acc.Sign(fkey.SK)
		d.NonRevocationProof.SignedAccumulator = cloneSAcc(s)
	})
	alter("sacc counter+1", func(d *gabi.ProofD) { d.NonRevocationProof.SignedAccumulator.PKCounter++ })
	for k := 0; k < 6; k++ {
		pos := jr.IntN(len(lib.NonRevocationProof.SignedAccumulator.Data))
		alter(fmt.Sprintf("sacc byte %d flipped", pos), func(d *gabi.ProofD) { d.NonRevocationProof.SignedAccumulator.Data[pos] ^= 2 })
	}
	alter("non-revocation part of another proof of B (other challenge)", func(d *gabi.ProofD) {
		o, err := credB.C.CreateDisclosureProof([]int{1}, nil, true, ctx, add(nonce, bigOne))
		if err == nil {
			d.NonRevocationProof = cloneNonrev(o.NonRevocationProof)
		}
	})
	alter("non-revocation part dropped", func(d *gabi.ProofD) { d.NonRevocationProof = nil })
	// wire-level: whatever the library puts on the wire below "sacc" besides the signed bytes and the key counter must not be able to
	// steer what the verifier reads; every such leaf is altered, and forged accumulators are injected under plausible member names
	if doc, err := json.Marshal(gabi.ProofList{lib}); err == nil {
		tree := decodeTree(doc)
		var muts []jmut
		walk(tree, nil, func(p jpath, v any) {
			ps := p.String()
			if !strings.Contains(ps, ".sacc.") || strings.HasSuffix(ps, ".sacc.data") || strings.HasSuffix(ps, ".sacc.pk") {
				return
			}
			switch xv := v.(type) {
			case json.Number:
				muts = append(muts, jmut{"wire " + ps + " +7", "", marshalTree(setAt(tree, p, json.Number(xv.String()+"7"), false))})
			case string:
				muts = append(muts, jmut{"wire " + ps + " := AQ==", "", marshalTree(setAt(tree, p, "AQ==", false))})
			}
		})
		forged := map[string]any{"Nu": base64.StdEncoding.EncodeToString(rev.Accs[0].Nu.Bytes()), "Index": json.Number("7"), "Time": json.Number("99"),
			"EventHash": rev.Accs[0].EventHash.String()}
		names := []string{"acc", "Acc", "accumulator", "Accumulator", "nu", "Nu"}
		// whatever JSON name the decoded-accumulator cache field currently has (it must have none: `json:"-"`)
		if f, ok := reflect.TypeOf(revocation.SignedAccumulator{}).FieldByName("Accumulator"); ok {
			if tag := strings.Split(f.Tag.Get("json"), ",")[0]; tag != "-" && tag != "" {
				names = append(names, tag)
			}
		}
		for _, name := range names {
			p := jpath{0, "nonrev_proof", "sacc", name}
			muts = append(muts, jmut{"wire inject sacc." + name, "", marshalTree(setAt(tree, p, forged, false))})
		}
		for _, name := range []string{"nu", "Nu", "challenge", "Challenge", "acc"} {
			p := jpath{0, "nonrev_proof", name}
			muts = append(muts, jmut{"wire inject nonrev_proof." + name, "", marshalTree(setAt(tree, p, "AQ==", false))})
		}
		for _, m := range muts {
			var pl gabi.ProofList
			if json.Unmarshal(m.doc, &pl) != nil || len(pl) != 1 {
				r.Eval("adv-wire", "reject")
				continue
			}
			d, isD := pl[0].(*gabi.ProofD)
			if !isD {
				continue
			}
			r.Distinct("adv-wire", m.desc, idx)
			ok, pv, _ := verifyList(pl, pks, ctx, nonce, false, nil)
			r.Eval("adv-wire", outcome(ok, pv))
			if ok {
				c11Accepted(r, "adv-wire", m.desc, d, tB)
			}
		}
	}
	// alpha shifted by k*ord across its bound (equation-preserving in the credential part and in the accumulator part)
	for band, nv := range shiftBands(lib.AResponses[credB.RevIdx], ord, pow2(580)) {
		dd := cloneD(lib)
		dd.AResponses[credB.RevIdx] = nv
		try("adv-alpha-shift", "alpha band "+band, dd, tB, false)
	}
}
