package props

import (
	"encoding/json"
	"fmt"
	"math"
	"math/rand/v2"
	"reflect"
	"runtime"
	"strings"
	"sync"

	"github.com/privacybydesign/gabi"
	"github.com/privacybydesign/gabi/big"
	"github.com/privacybydesign/gabi/gabikeys"
	"github.com/privacybydesign/gabi/rangeproof"
	"github.com/privacybydesign/gabi/verifhooks"

	"verifharness/mon"
	"verifharness/refimpl"
	"verifharness/world"
)

func init() {
	Registry["C12"] = &Check{
		Level: "exploration",
		Rule: "exhaustive box: attribute m in [0..8] (quick) / [0..24] (thorough) x descriptor (sign +-1, factor 1..4, bound -4..110, four squares | three squares with table) — every true descriptor is turned into a real proof by the library and verified, every false one is attempted through the library (must be refused) and through an independent reference prover (must not verify); " +
			"every accepted proof is interrogated with the query box sign x factor {1..16, 2^62, 2^62+1, 2^63, 2^64-1} x bound [-4..110] through ProvesStatement/Proves and with ProvenStatement, all compared with plain integer truth for the signed m; " +
			"edge descriptors (factor 0, 2^63-1.., sign 0/2/-2, l_d 0/Lm/Lm+1, bound at the size limit, 3 squares with a!=4, Cs count 2/5) through the public API and the reference prover; transplants to other hidden/disclosed/unknown indices and other credentials; every single-field alteration; " +
			"non-trivial = a range proof reached the verifier; distinct by (m, descriptor | operator) hash; oracle on every accepted ProofD: each carried range proof sits on a hidden index of that credential, its reported statement and everything ProvesStatement affirms is true for the signed value",
		Run: runC12,
	}
}

// stTrue is integer truth of sign*(factor*m - bound) >= 0 with the factor read as an unsigned number.
func stTrue(sign int, factor uint, bound, m *big.Int) bool {
	v := mul(new(big.Int).SetUint64(uint64(factor)), m)
	v.Sub(v, bound)
	switch sign {
	case 1:
		return v.Sign() >= 0
	case -1:
		return v.Sign() <= 0
	}
	return false
}

type c12query struct {
	sign   int
	factor uint
	bound  *big.Int
}

var c12queries []c12query
var c12qOnce sync.Once

func c12QueryBox() []c12query {
	c12qOnce.Do(func() {
		factors := []uint{}
		for f := uint(1); f <= 16; f++ {
			factors = append(factors, f)
		}
		factors = append(factors, 0, 1<<62, 1<<62+1, 1<<63, math.MaxUint64, math.MaxUint64/4+1, math.MaxUint64/4+2)
		for _, s := range []int{1, -1, 0, 2} {
			for _, f := range factors {
				for b := int64(-4); b <= 110; b++ {
					c12queries = append(c12queries, c12query{s, f, bi(b)})
				}
			}
		}
	})
	return c12queries
}

// c12Oracle interrogates the range proofs of an accepted proof against the ledger.
func c12Oracle(r *mon.Run, family, desc string, d *gabi.ProofD, cred *world.Cred, fullBox bool) {
	rep := func() map[string]any {
		return map[string]any{"family": family, "case": desc, "proof": dumpD(d), "cred": dumpCred(cred)}
	}
	for idx, list := range d.RangeProofs {
		_, hidden := d.AResponses[idx]
		if !hidden || idx < 0 || idx >= len(cred.Ledger) {
			r.Violation("C12/range-proof-on-non-hidden-index", fmt.Sprintf("accepted proof carries a range proof at index %d which is not a hidden attribute of the credential (%s: %s)", idx, family, desc), rep())
			continue
		}
		m := cred.NormLedger(idx)
		for _, rp := range list {
			r.Eval("oracle", "accept")
			typ, factor, bound := rp.ProvenStatement()
			sign := 1
			if typ == rangeproof.LesserOrEqual {
				sign = -1
			}
			if !stTrue(sign, factor, bound, m) {
				r.Violation("C12/false-statement-proven/"+family, fmt.Sprintf("accepted range proof reports %d*m %s %s for signed m=%s: false (%s)", factor, map[int]string{1: ">=", -1: "<="}[sign], dumpInt(bound), dumpInt(m), desc), rep())
			}
			qs := c12QueryBox()
			if !fullBox {
				qs = qs[:0:0]
				for i, q := range c12QueryBox() {
					if i%7 == 0 {
						qs = append(qs, q)
					}
				}
			}
			for _, q := range qs {
				if rp.ProvesStatement(q.sign, q.factor, q.bound) && !stTrue(q.sign, q.factor, q.bound, m) {
					sig := "C12/proves-false-statement"
					if q.factor > math.MaxUint64/4 {
						sig += "/query-factor-wraps"
					}
					r.Violation(sig, fmt.Sprintf("ProvesStatement(sign=%d, factor=%d, bound=%s) is true on an accepted proof (descriptor sign=%d a=%d k=%s squares=%d) but false for the signed m=%s (%s)",
						q.sign, q.factor, dumpInt(q.bound), rp.Sign, rp.A, dumpInt(rp.K), len(rp.Cs), dumpInt(m), desc), rep())
				}
			}
			r.Add("queries_checked", int64(len(qs)))
		}
	}
}

type c12ctx struct {
	r     *mon.Run
	key   *world.Key
	table *rangeproof.SquaresTable
	// an honest, verified proof of warmCred used as the earlier content of reused objects
	warmBase           *gabi.ProofD
	warmCred           *world.Cred
	warmCtx, warmNonce *big.Int
}

// verifyAndJudge verifies an (in-memory, as received) proof and applies the oracle on acceptance.
func (x *c12ctx) verifyAndJudge(family, desc string, d *gabi.ProofD, cred *world.Cred, ctx, nonce *big.Int, fullBox bool) bool {
	r := x.r
	r.Distinct(family, desc)
	recv := cloneD(d)
	ok, pv, stack := verifyList(gabi.ProofList{recv}, []*gabikeys.PublicKey{x.key.PK}, ctx, nonce, false, nil)
	r.Eval(family, outcome(ok, pv))
	if pv != nil {
		r.PanicSeen(mon.PanicSite(stack))
	}
	// object history: the same proof arriving in an object that has verified another proof of this credential before
	// (a verifier decoding successive messages into one variable) must be judged exactly like a fresh object
	if x.warmBase != nil && x.warmCred == cred {
		w := cloneD(x.warmBase)
		if okw, _, _ := verifyList(gabi.ProofList{w}, []*gabikeys.PublicKey{x.key.PK}, x.warmCtx, x.warmNonce, false, nil); okw {
			src := cloneD(d)
			w.C, w.A, w.EResponse, w.VResponse, w.AResponses, w.ADisclosed, w.NonRevocationProof, w.RangeProofs = src.C, src.A, src.EResponse, src.VResponse, src.AResponses, src.ADisclosed, src.NonRevocationProof, src.RangeProofs
			okh, pvh, _ := verifyList(gabi.ProofList{w}, []*gabikeys.PublicKey{x.key.PK}, ctx, nonce, false, nil)
			r.Eval(family+"/reused-object", outcome(okh, pvh))
			if okh {
				c12Oracle(r, family+"-reused-object", desc+" (decoded into an object that verified another proof before)", w, cred, false)
				if !ok {
					r.Violation("C12/verdict-depends-on-object-history", "a proof rejected in a fresh object is accepted when it is placed into an object that verified another proof before ("+family+": "+desc+")",
						map[string]any{"family": family, "case": desc, "proof": dumpD(d), "earlier_proof": dumpD(x.warmBase)})
				}
			}
		}
	}
	if ok {
		c12Oracle(r, family, desc, recv, cred, fullBox)
		// warm re-verification of the same object must not change the verdict's meaning
		ok2, _, _ := verifyList(gabi.ProofList{recv}, []*gabikeys.PublicKey{x.key.PK}, ctx, nonce, false, nil)
		if !ok2 {
			r.Eval(family+"/reverify", "reject")
		}
	} else {
		// a rejected object, verified again, must stay rejected (no partial caches)
		ok2, pv2, _ := verifyList(gabi.ProofList{recv}, []*gabikeys.PublicKey{x.key.PK}, ctx, nonce, false, nil)
		if ok2 && pv2 == nil {
			c12Oracle(r, family+"-reverify", desc+" (second verification of the same object)", recv, cred, fullBox)
			r.Violation("C12/rejected-then-accepted-on-reverify", "a proof rejected at first verification is accepted when the same object is verified again ("+family+": "+desc+")",
				map[string]any{"family": family, "case": desc, "proof": dumpD(d)})
		}
	}
	return ok
}

func runC12(r *mon.Run) {
	r.Assume("k shifted by a multiple of ord(QR_n) is outside the property (a prover who knows the group order can do that on toy keys); the one trapdoor family used, square roots modulo ord for a false statement, must be stopped by the response size limits")
	key := world.Fixture("toy256a")
	x := &c12ctx{r: r, key: key, table: rangeproof.GenerateSquaresTable(4096)}
	maxM := int64(r.Pick(8, 40))
	type job struct {
		m     int64
		sign  int
		f     uint
		three bool
	}
	var jobs []job
	for m := int64(0); m <= maxM; m++ {
		for _, s := range []int{1, -1} {
			for f := uint(1); f <= 4; f++ {
				for _, three := range []bool{false, true} {
					if three && f != 1 {
						continue
					}
					jobs = append(jobs, job{m, s, f, three})
				}
			}
		}
	}
	rng := r.Rand("box")
	seeds := make([]uint64, len(jobs))
	for i := range seeds {
		seeds[i] = rng.Uint64()
	}
	mon.Parallel(len(jobs), runtime.NumCPU(), func(i int) {
		j := jobs[i]
		jr := rand.New(rand.NewPCG(seeds[i], 12))
		cred, err := key.SignCred([]*big.Int{randBig(jr, 250), bi(4242), bi(j.m), bi(j.m + 3)})
		if err != nil {
			panic(err)
		}
		for b := int64(-4); b <= 110; b++ {
			c12Descriptor(x, jr, cred, j.m, j.sign, j.f, b, j.three, b%5 == 0)
		}
	})
	r.Exhaustive(true)
	r.Set("exhaustive_scope", fmt.Sprintf("m in [0..%d] x sign {1,-1} x factor {1..4} (three squares: factor 1) x bound [-4..110] x {four squares, three squares}; query box as in rule", maxM))
	// edges, transplants, alterations
	njobs := r.Pick(16, 500)
	eseeds := make([]uint64, njobs)
	for i := range eseeds {
		eseeds[i] = rng.Uint64()
	}
	mon.Parallel(njobs, runtime.NumCPU(), func(i int) {
		jr := rand.New(rand.NewPCG(eseeds[i], 120))
		c12Edges(x, jr, i)
		c12Transplants(x, jr, i)
		c12WeakFiatShamir(x, jr, i)
	})
	r.FloorAccept("box-true", 500)
	r.FloorFam("box-false-lib", 500)
	r.FloorFam("box-false-ref", 500)
	r.FloorFam("oracle", 500)
	r.FloorFam("edge-api", 20)
	r.FloorFam("trapdoor-sqrt", 8)
	r.FloorFam("degenerate-commitments", 8)
	r.FloorFam("weak-fiat-shamir", 8)
	r.FloorFam("edge-ref", 20)
	r.FloorFam("transplant", 50)
	r.FloorFam("alter", 100)
}

func (x *c12ctx) statement(sign int, f uint, bound int64, three bool) *rangeproof.Statement {
	st := &rangeproof.Statement{Sign: sign, Factor: f, Bound: bi(bound)}
	if three {
		st.Splitter = x.table
	}
	return st
}

func c12Descriptor(x *c12ctx, jr *rand.Rand, cred *world.Cred, m int64, sign int, f uint, bound int64, three bool, fullBox bool) {
	r := x.r
	truth := stTrue(sign, f, bi(bound), bi(m))
	desc := fmt.Sprintf("m=%d sign=%d factor=%d bound=%d three=%v", m, sign, f, bound, three)
	ctx, nonce := freshNonces(jr)
	st := x.statement(sign, f, bound, three)
	var d *gabi.ProofD
	var err error
	pv, stack := mon.Try(func() {
		d, err = cred.C.CreateDisclosureProof([]int{1}, map[int][]*rangeproof.Statement{2: {st}}, false, ctx, nonce)
	})
	if pv != nil {
		r.PanicSeen(mon.PanicSite(stack))
		err = fmt.Errorf("panic: %v", pv)
	}
	if truth {
		if err != nil {
			r.Eval("box-true", "error") // completeness is C13's matter; here it only reduces coverage
			return
		}
		if x.verifyAndJudge("box-true", desc, d, cred, ctx, nonce, fullBox) {
			if m == 3 && bound%40 == 0 {
				r.Sample(map[string]any{"case": desc, "descriptor": map[string]any{"sign": d.RangeProofs[2][0].Sign, "a": d.RangeProofs[2][0].A, "k": dumpInt(d.RangeProofs[2][0].K), "squares": len(d.RangeProofs[2][0].Cs)}})
			}
		}
		return
	}
	// false statement through the library: must be refused, or the result must not verify
	if err != nil {
		r.Eval("box-false-lib", "reject")
	} else {
		x.verifyAndJudge("box-false-lib", desc, d, cred, ctx, nonce, fullBox)
	}
	// false statement through the reference prover: lie about the square decomposition of the (negative) difference
	a, k := f, bi(bound)
	nsq := 4
	if three {
		a, k, nsq = 4, bi(4*bound-2), 3
	}
	delta := sub(mul(bi(int64(a)), bi(m)), k)
	if sign == -1 {
		delta.Neg(delta)
	}
	// delta < 0 here; use the decomposition of |delta| (the relation then fails by 2|delta| in the exponent) and of 0
	for vi, ds := range [][]*big.Int{refimpl.FourSquares(new(big.Int).Abs(delta)), {bi(0), bi(0), bi(0), bi(0)}} {
		if ds == nil {
			continue
		}
		ds = ds[:nsq]
		dis, hid := hiddenOf(cred, []int{1})
		p := refimpl.NewDProver(x.key.PK, cred.C.Signature, dis, hid)
		rp := &refimpl.RangeProver{PK: x.key.PK, Index: 2, M: cred.NormLedger(2), MRand: p.R[2], Sign: sign, A: a, K: k, Ld: 128, D: ds}
		p.Extra = rp.Commit()
		c := refimpl.Challenge(ctx, nonce, p.Commit(), false)
		dd := p.Respond(c)
		dd.RangeProofs = map[int][]*rangeproof.Proof{2: {rp.Respond(c)}}
		x.verifyAndJudge("box-false-ref", fmt.Sprintf("%s lie#%d", desc, vi), dd, cred, ctx, nonce, false)
	}
	x.ownResponse(cred, desc, sign, a, k, nsq, ctx, nonce)
	// negative roots: d_i = -e_i with sum e_i^2 = |delta|, randomisers 0, so that the d responses are negative. The squares are
	// the same, the relation still fails by 2|delta| - unless the verifier treats the sign of an exponent of C_i differently
	// from the sign of an exponent of R
	if es := refimpl.FourSquares(new(big.Int).Abs(delta)); es != nil && nsq <= len(es) {
		for variant := 0; variant < 4; variant++ {
			zeroRand, v5abs := variant&1 == 0, variant&2 != 0
			neg := make([]*big.Int, nsq)
			for i := range neg {
				neg[i] = new(big.Int).Neg(es[i])
			}
			dis, hid := hiddenOf(cred, []int{1})
			p := refimpl.NewDProver(x.key.PK, cred.C.Signature, dis, hid)
			rp := &refimpl.RangeProver{PK: x.key.PK, Index: 2, M: cred.NormLedger(2), MRand: p.R[2], Sign: sign, A: a, K: k, Ld: 128, D: neg, DRandZero: zeroRand, V5Abs: v5abs}
			var dd *gabi.ProofD
			if pv, _ := mon.Try(func() {
				p.Extra = rp.Commit()
				c := refimpl.Challenge(ctx, nonce, p.Commit(), false)
				dd = p.Respond(c)
				dd.RangeProofs = map[int][]*rangeproof.Proof{2: {rp.Respond(c)}}
			}); pv == nil && dd != nil {
				x.verifyAndJudge("box-false-ref", fmt.Sprintf("%s negative roots (zero d randomisers=%v, v5 over |d_i|=%v)", desc, zeroRand, v5abs), dd, cred, ctx, nonce, false)
			}
		}
	}
}

// c12OwnResponse: a range proof computed about a foreign value m* for which the statement is TRUE, carrying its own response
// for m (in memory, and on the wire under every name the field could travel by). The verifier must tie the range proof to the
// hidden attribute's response of the enclosing proof, whatever the range proof itself brings along.
func (x *c12ctx) ownResponse(cred *world.Cred, desc string, sign int, a uint, k *big.Int, nsq int, ctx, nonce *big.Int) {
	// m* with sign*(a*m* - k) = 30 >= 0 where possible
	target := add(k, bi(int64(30*sign)))
	if a == 0 || new(big.Int).Mod(target, bi(int64(a))).Sign() != 0 || target.Sign() < 0 {
		return
	}
	mStar := new(big.Int).Div(target, bi(int64(a)))
	ds := refimpl.FourSquares(bi(30))
	if ds == nil || nsq > len(ds) {
		return
	}
	if nsq == 3 {
		ds = []*big.Int{bi(5), bi(2), bi(1)} // 25+4+1
	}
	dis, hid := hiddenOf(cred, []int{1})
	p := refimpl.NewDProver(x.key.PK, cred.C.Signature, dis, hid)
	rp := &refimpl.RangeProver{PK: x.key.PK, Index: 2, M: mStar, MRand: refimpl.RandBits(x.key.PK.Params.LmCommit), Sign: sign, A: a, K: k, Ld: 128, D: ds, OwnMResponse: true}
	p.Extra = rp.Commit()
	c := refimpl.Challenge(ctx, nonce, p.Commit(), false)
	dd := p.Respond(c)
	own := rp.Respond(c)
	dd.RangeProofs = map[int][]*rangeproof.Proof{2: {own}}
	x.verifyAndJudge("box-false-ref", desc+" range proof about a foreign value with its own m response (in memory)", dd, cred, ctx, nonce, false)
	// on the wire: the member is injected under the field's JSON name if it has one, and under the names it could be given
	names := map[string]bool{"m": true, "m_response": true, "MResponse": true, "mresponse": true, "m_resp": true}
	if f, ok := reflect.TypeOf(rangeproof.Proof{}).FieldByName("MResponse"); ok {
		if tag := strings.Split(f.Tag.Get("json"), ",")[0]; tag != "" && tag != "-" {
			names[tag] = true
		}
	}
	doc, err := json.Marshal(dd)
	if err != nil {
		return
	}
	for name := range names {
		var tree map[string]any
		if json.Unmarshal(doc, &tree) != nil {
			return
		}
		rps, _ := tree["rangeproofs"].(map[string]any)
		lst, _ := rps["2"].([]any)
		if len(lst) != 1 {
			return
		}
		obj, _ := lst[0].(map[string]any)
		obj[name] = b64(own.MResponse)
		mut, _ := json.Marshal(tree)
		var rt gabi.ProofD
		if json.Unmarshal(mut, &rt) != nil {
			continue
		}
		x.verifyAndJudge("box-false-ref", fmt.Sprintf("%s range proof about a foreign value, own m response sent as member %q", desc, name), &rt, cred, ctx, nonce, false)
	}
}

// c12WeakFiatShamir: the statement of a range proof (k, sign, a, l_d) and its commitments C_i are not part of what the
// challenge is computed over - only the reconstructed Schnorr commitments are. A prover can therefore fix those commitments
// (T_m = R^-r_m, T_i = R^X_i S^y_i with large random X_0, X_1), learn c, and only then choose C_i = R^d_i S^v_i and k: the
// verifier's reconstruction gives back the T values as soon as c*(k - m + sum d_i^2) + sum d_i X_i = 0, i.e. for a short
// lattice vector (d_0, d_1) with X_0 d_0 + X_1 d_1 = 0 (mod c) and k = m + W/c - |d|^2, W = -(X_0 d_0 + X_1 d_1) > 0.
// The result is an accepted proof of m >= k with k > m. (Construction found by an independent sub-agent; see DESIGN 9.2.)
func c12WeakFiatShamir(x *c12ctx, jr *rand.Rand, idx int) {
	r := x.r
	pk := x.key.PK
	m := bi(int64(5 + jr.IntN(10_000_000)))
	cred, err := x.key.SignCred([]*big.Int{randBig(jr, 250), bi(4242), m})
	if err != nil {
		return
	}
	ctx, nonce := freshNonces(jr)
	R, S, N := pk.R[2], pk.S, pk.N
	for attempt := 0; attempt < 8; attempt++ {
		dis, hid := hiddenOf(cred, []int{1})
		p := refimpl.NewDProver(pk, cred.C.Signature, dis, hid)
		rm := p.R[2]
		X := []*big.Int{refimpl.RandBits(pk.Params.Lh + 138), refimpl.RandBits(pk.Params.Lh + 138), bi(0), bi(0)}
		y := make([]*big.Int, 4)
		extra := []*big.Int{refimpl.PowSigned(R, new(big.Int).Neg(rm), N)}
		for i := range X {
			y[i] = refimpl.RandBits(200)
			t := new(big.Int).Exp(R, X[i], N)
			extra = append(extra, t.Mul(t, new(big.Int).Exp(S, y[i], N)).Mod(t, N))
		}
		p.Extra = extra
		c := refimpl.Challenge(ctx, nonce, p.Commit(), false)
		dd := p.Respond(c)
		// Lagrange-Gauss reduction of the lattice {(a,b): X0 a + X1 b = 0 mod c}, basis (c,0), (h,1) with h = -X1/X0 mod c
		x0inv := new(big.Int).ModInverse(new(big.Int).Mod(X[0], c), c)
		if x0inv == nil {
			continue
		}
		h := new(big.Int).Mod(new(big.Int).Neg(mul(X[1], x0inv)), c)
		u, v := [2]*big.Int{cp(c), bi(0)}, [2]*big.Int{h, bi(1)}
		norm := func(a [2]*big.Int) *big.Int { return add(mul(a[0], a[0]), mul(a[1], a[1])) }
		dot := func(a, b [2]*big.Int) *big.Int { return add(mul(a[0], b[0]), mul(a[1], b[1])) }
		for it := 0; it < 2000; it++ {
			if norm(u).Cmp(norm(v)) < 0 {
				u, v = v, u
			}
			nv := norm(v)
			if nv.Sign() == 0 {
				break
			}
			q := new(big.Int).Div(add(new(big.Int).Lsh(dot(u, v), 1), nv), new(big.Int).Lsh(nv, 1))
			if q.Sign() == 0 {
				break
			}
			u[0], u[1] = sub(u[0], mul(q, v[0])), sub(u[1], mul(q, v[1]))
		}
		d := v
		if norm(u).Sign() != 0 && norm(u).Cmp(norm(v)) < 0 {
			d = u
		}
		W := add(mul(X[0], d[0]), mul(X[1], d[1]))
		if W.Sign() > 0 {
			d[0], d[1] = new(big.Int).Neg(d[0]), new(big.Int).Neg(d[1])
			W.Neg(W)
		}
		W.Neg(W)
		if W.Sign() <= 0 || new(big.Int).Mod(W, c).Sign() != 0 {
			continue
		}
		kappa := sub(new(big.Int).Div(W, c), norm(d))
		if kappa.Sign() <= 0 {
			continue
		}
		K := add(m, kappa)
		ds := []*big.Int{d[0], d[1], bi(0), bi(0)}
		rp := &rangeproof.Proof{Ld: 256, Sign: 1, A: 1, K: K, V5Response: bi(0)}
		okSizes := true
		for i := 0; i < 4; i++ {
			vi := bi(int64(i + 1))
			ci := mul(refimpl.PowSigned(R, ds[i], N), new(big.Int).Exp(S, vi, N))
			ci.Mod(ci, N)
			dr := add(X[i], mul(c, ds[i]))
			if dr.Sign() < 0 {
				okSizes = false
			}
			rp.Cs = append(rp.Cs, ci)
			rp.DResponses = append(rp.DResponses, dr)
			rp.VResponses = append(rp.VResponses, add(y[i], mul(c, vi)))
			rp.V5Response.Add(rp.V5Response, mul(vi, dr))
		}
		if !okSizes {
			continue
		}
		dd.RangeProofs = map[int][]*rangeproof.Proof{2: {rp}}
		recv, err := jsonRoundTripList(gabi.ProofList{dd})
		if err != nil {
			continue
		}
		desc := fmt.Sprintf("m=%s, statement and C_i chosen after the challenge: claims m >= m+%s (k has %d bits)", m.String(), shortInt(kappa), K.BitLen())
		r.Distinct("weak-fiat-shamir", idx, attempt)
		ok, pv, _ := verifyList(recv, []*gabikeys.PublicKey{pk}, ctx, nonce, false, nil)
		r.Eval("weak-fiat-shamir", outcome(ok, pv))
		if ok {
			got := recv[0].(*gabi.ProofD).RangeProofs[2][0]
			typ, factor, bound := got.ProvenStatement()
			sign := 1
			if typ == rangeproof.LesserOrEqual {
				sign = -1
			}
			if !stTrue(sign, factor, bound, m) {
				r.Violation("C12/false-statement-proven/weak-fiat-shamir", fmt.Sprintf("accepted range proof reports %d*m >= %s for signed m=%s: the bound and the commitments C_i were chosen after the challenge, which does not cover them (%s)", factor, shortInt(bound), m.String(), desc),
					map[string]any{"case": desc, "proof": dumpD(dd), "cred": dumpCred(cred), "context": dumpInt(ctx), "nonce": dumpInt(nonce)})
			}
		}
		return
	}
}

// refRangeProof builds a proof with one range proof from the reference provers.
func refRangeProof(x *c12ctx, cred *world.Cred, D []int, attach int, claimM *big.Int, sign int, a uint, k *big.Int, ld uint, ds []*big.Int, ctx, nonce *big.Int, keyIdx int) *gabi.ProofD {
	return refRangeProofV(x, cred, D, attach, claimM, sign, a, k, ld, ds, nil, ctx, nonce, keyIdx)
}

func refRangeProofV(x *c12ctx, cred *world.Cred, D []int, attach int, claimM *big.Int, sign int, a uint, k *big.Int, ld uint, ds, vs []*big.Int, ctx, nonce *big.Int, keyIdx int) *gabi.ProofD {
	dis, hid := hiddenOf(cred, D)
	p := refimpl.NewDProver(x.key.PK, cred.C.Signature, dis, hid)
	mr := p.R[attach]
	if mr == nil {
		mr = refimpl.RandBits(592)
	}
	rp := &refimpl.RangeProver{PK: x.key.PK, Index: attach, M: claimM, MRand: mr, Sign: sign, A: a, K: k, Ld: ld, D: ds, V: vs}
	p.Extra = rp.Commit()
	c := refimpl.Challenge(ctx, nonce, p.Commit(), false)
	dd := p.Respond(c)
	dd.RangeProofs = map[int][]*rangeproof.Proof{keyIdx: {rp.Respond(c)}}
	return dd
}

func c12Edges(x *c12ctx, jr *rand.Rand, idx int) {
	r := x.r
	pk := x.key.PK
	m := int64(5 + jr.IntN(20))
	cred, _ := x.key.SignCred([]*big.Int{randBig(jr, 250), bi(4242), bi(m), bi(m + 3)})
	ctx, nonce := freshNonces(jr)
	// ---- through the public API
	type apiCase struct {
		name string
		st   *rangeproof.Statement
	}
	big64 := func(u uint64) uint { return uint(u) }
	apis := []apiCase{
		{"factor 0, m*0 >= 0", &rangeproof.Statement{Sign: 1, Factor: 0, Bound: bi(0)}},
		{"factor 0, 0 >= 1 (false)", &rangeproof.Statement{Sign: 1, Factor: 0, Bound: bi(1)}},
		{"factor 2^63-1 >= 0", &rangeproof.Statement{Sign: 1, Factor: big64(1<<63 - 1), Bound: bi(0)}},
		{"factor 2^63 <= 0 (false)", &rangeproof.Statement{Sign: -1, Factor: big64(1 << 63), Bound: bi(0)}},
		{"factor 2^63+1 <= 0 (false)", &rangeproof.Statement{Sign: -1, Factor: big64(1<<63 + 1), Bound: bi(0)}},
		{"factor 2^64-1 <= 0 (false)", &rangeproof.Statement{Sign: -1, Factor: big64(math.MaxUint64), Bound: bi(0)}},
		{"factor 2^63+1 >= 0", &rangeproof.Statement{Sign: 1, Factor: big64(1<<63 + 1), Bound: bi(0)}},
		{"factor 2^64-1 >= 1", &rangeproof.Statement{Sign: 1, Factor: big64(math.MaxUint64), Bound: bi(1)}},
		{"sign 0", &rangeproof.Statement{Sign: 0, Factor: 1, Bound: bi(0)}},
		{"sign 2", &rangeproof.Statement{Sign: 2, Factor: 1, Bound: bi(0)}},
		{"sign -2", &rangeproof.Statement{Sign: -2, Factor: 1, Bound: bi(1000)}},
		{"bound 2^(Lm+64)-1 <=", &rangeproof.Statement{Sign: -1, Factor: 1, Bound: sub(pow2(pk.Params.Lm+64), bigOne)}},
		{"bound 2^(Lm+64) <=", &rangeproof.Statement{Sign: -1, Factor: 1, Bound: pow2(pk.Params.Lm + 64)}},
		{"bound -2^300 >=", &rangeproof.Statement{Sign: 1, Factor: 1, Bound: new(big.Int).Neg(pow2(300))}},
		{"three squares factor 2", &rangeproof.Statement{Sign: 1, Factor: 2, Bound: bi(1), Splitter: x.table}},
		{"three squares m >= m", &rangeproof.Statement{Sign: 1, Factor: 1, Bound: bi(m), Splitter: x.table}},
		{"three squares m <= m+1", &rangeproof.Statement{Sign: -1, Factor: 1, Bound: bi(m + 1), Splitter: x.table}},
	}
	for _, a := range apis {
		var d *gabi.ProofD
		var err error
		pv, stack := mon.Try(func() {
			d, err = cred.C.CreateDisclosureProof([]int{1}, map[int][]*rangeproof.Statement{2: {a.st}}, false, ctx, nonce)
		})
		if pv != nil {
			r.PanicSeen(mon.PanicSite(stack))
			r.Eval("edge-api", "panic")
			continue
		}
		if err != nil {
			r.Eval("edge-api", "reject")
			r.Distinct("edge-api", a.name, "refused")
			continue
		}
		x.verifyAndJudge("edge-api", fmt.Sprintf("m=%d %s", m, a.name), d, cred, ctx, nonce, true)
	}
	// ---- issuer-level adversary: a FALSE statement m >= m+7 proved with square roots modulo ord(QR_n). The relation holds in the
	// exponent; only the size limits on the d responses stand between this prover and an accepted false inequality.
	{
		ord := x.key.Ord
		pp, qp := x.key.SK.PPrime, x.key.SK.QPrime
		delta := bi(-7) // m - (m+7)
		for d2 := int64(0); d2 < 200; d2++ {
			t := new(big.Int).Mod(sub(delta, bi(d2*d2)), ord)
			rt, ok := verifhooks.ModSqrt(t, []*big.Int{pp, qp})
			if !ok {
				continue
			}
			var d *gabi.ProofD
			pv, _ := mon.Try(func() {
				// no hider on the huge root (a cheater does not need zero-knowledge), so that v5 stays small
				d = refRangeProofV(x, cred, []int{1}, 2, cred.NormLedger(2), 1, 1, bi(m+7), 128, []*big.Int{rt, bi(d2), bi(0), bi(0)}, []*big.Int{bi(0)}, ctx, nonce, 2)
			})
			if pv == nil && d != nil {
				x.verifyAndJudge("trapdoor-sqrt", fmt.Sprintf("m=%d claims m >= m+7 with d_1 = sqrt(-7-%d^2) mod ord (%d bits)", m, d2, rt.BitLen()), d, cred, ctx, nonce, false)
			}
			break
		}
	}
	// ---- degenerate commitments: C_i = 0 (or N) are not group elements; a verifier that multiplies them into its reconstruction gets 0
	// for every commitment, whatever the statement. False statement m >= m+1000 with arbitrary "squares":
	for _, fc := range []*big.Int{bi(0), cp(pk.N)} {
		var d *gabi.ProofD
		pv, _ := mon.Try(func() {
			dis, hid := hiddenOf(cred, []int{1})
			p := refimpl.NewDProver(x.key.PK, cred.C.Signature, dis, hid)
			rp := &refimpl.RangeProver{PK: x.key.PK, Index: 2, M: cred.NormLedger(2), MRand: p.R[2], Sign: 1, A: 1, K: bi(m + 1000), Ld: 128, D: []*big.Int{bi(1), bi(2), bi(3), bi(4)}, ForceC: fc}
			p.Extra = rp.Commit()
			c := refimpl.Challenge(ctx, nonce, p.Commit(), false)
			d = p.Respond(c)
			d.RangeProofs = map[int][]*rangeproof.Proof{2: {rp.Respond(c)}}
		})
		if pv == nil && d != nil {
			x.verifyAndJudge("degenerate-commitments", fmt.Sprintf("m=%d claims m >= m+1000 with every C_i = %s", m, map[bool]string{true: "0", false: "N"}[fc.Sign() == 0]), d, cred, ctx, nonce, false)
		}
	}
	// a degenerate range proof next to a well-formed one on the same attribute (every carried range proof has to be checked,
	// whatever its position in the list)
	if m >= 1 {
		for _, degFirst := range []bool{false, true} {
			var d *gabi.ProofD
			pv, _ := mon.Try(func() {
				dis, hid := hiddenOf(cred, []int{1})
				p := refimpl.NewDProver(x.key.PK, cred.C.Signature, dis, hid)
				good := &refimpl.RangeProver{PK: x.key.PK, Index: 2, M: cred.NormLedger(2), MRand: p.R[2], Sign: 1, A: 1, K: bi(m - 1), Ld: 128, D: []*big.Int{bi(1), bi(0), bi(0), bi(0)}}
				bad := &refimpl.RangeProver{PK: x.key.PK, Index: 2, M: cred.NormLedger(2), MRand: p.R[2], Sign: 1, A: 1, K: bi(m + 1000), Ld: 128, D: []*big.Int{bi(1), bi(2), bi(3), bi(4)}, ForceC: bi(0)}
				order := []*refimpl.RangeProver{good, bad}
				if degFirst {
					order = []*refimpl.RangeProver{bad, good}
				}
				p.Extra = append(order[0].Commit(), order[1].Commit()...)
				c := refimpl.Challenge(ctx, nonce, p.Commit(), false)
				d = p.Respond(c)
				d.RangeProofs = map[int][]*rangeproof.Proof{2: {order[0].Respond(c), order[1].Respond(c)}}
			})
			if pv == nil && d != nil {
				x.verifyAndJudge("degenerate-commitments", fmt.Sprintf("m=%d: a proof of m >= m-1 and a degenerate proof (every C_i = 0) of m >= m+1000 on the same attribute, degenerate first=%v", m, degFirst), d, cred, ctx, nonce, false)
			}
		}
	}
	// one commitment alone degenerate: the relation for m multiplies every C_i, so a single zero collapses it
	for pos := 0; pos < 4; pos++ {
		for _, fc := range []*big.Int{bi(0), cp(pk.N), mul(pk.N, bi(3))} {
			var d *gabi.ProofD
			pos := pos
			pv, _ := mon.Try(func() {
				dis, hid := hiddenOf(cred, []int{1})
				p := refimpl.NewDProver(x.key.PK, cred.C.Signature, dis, hid)
				rp := &refimpl.RangeProver{PK: x.key.PK, Index: 2, M: cred.NormLedger(2), MRand: p.R[2], Sign: 1, A: 1, K: bi(m + 1000), Ld: 128, D: []*big.Int{bi(1), bi(2), bi(3), bi(4)}, ForceC: fc, ForceCOnly: &pos}
				p.Extra = rp.Commit()
				c := refimpl.Challenge(ctx, nonce, p.Commit(), false)
				d = p.Respond(c)
				d.RangeProofs = map[int][]*rangeproof.Proof{2: {rp.Respond(c)}}
			})
			if pv == nil && d != nil {
				x.verifyAndJudge("degenerate-commitments", fmt.Sprintf("m=%d claims m >= m+1000 with C_%d alone = %s", m, pos, shortInt(fc)), d, cred, ctx, nonce, false)
			}
		}
	}
	// ---- through the reference prover: true relation m >= 1 (delta = m-1) with odd descriptor fields
	delta := bi(m - 1)
	ds := refimpl.FourSquares(delta)
	mm := cred.NormLedger(2)
	refs := []struct {
		name string
		f    func() *gabi.ProofD
	}{
		{"honest reference (m >= 1)", func() *gabi.ProofD {
			return refRangeProof(x, cred, []int{1}, 2, mm, 1, 1, bi(1), 128, ds, ctx, nonce, 2)
		}},
		{"l_d 0", func() *gabi.ProofD { return refRangeProof(x, cred, []int{1}, 2, mm, 1, 1, bi(1), 0, ds, ctx, nonce, 2) }},
		{"l_d Lm", func() *gabi.ProofD {
			return refRangeProof(x, cred, []int{1}, 2, mm, 1, 1, bi(1), pk.Params.Lm, ds, ctx, nonce, 2)
		}},
		{"l_d Lm+1", func() *gabi.ProofD {
			return refRangeProof(x, cred, []int{1}, 2, mm, 1, 1, bi(1), pk.Params.Lm+1, ds, ctx, nonce, 2)
		}},
		{"sign 0: k = sum of squares, reported as m >= k", func() *gabi.ProofD {
			k := pow2(200)
			return refRangeProof(x, cred, []int{1}, 2, mm, 0, 1, k, 128, []*big.Int{pow2(100), bi(0), bi(0), bi(0)}, ctx, nonce, 2)
		}},
		{"sign 2: k = sum d^2 - 2m", func() *gabi.ProofD {
			d0 := pow2(100)
			k := sub(mul(d0, d0), bi(2*m))
			return refRangeProof(x, cred, []int{1}, 2, mm, 2, 1, k, 128, []*big.Int{d0, bi(0), bi(0), bi(0)}, ctx, nonce, 2)
		}},
		{"sign -2: k = sum d^2 + 2m", func() *gabi.ProofD {
			d0 := pow2(100)
			k := add(mul(d0, d0), bi(2*m))
			return refRangeProof(x, cred, []int{1}, 2, mm, -2, 1, k, 128, []*big.Int{d0, bi(0), bi(0), bi(0)}, ctx, nonce, 2)
		}},
		{"factor 0: 0*m >= -(sum d^2)", func() *gabi.ProofD {
			return refRangeProof(x, cred, []int{1}, 2, mm, 1, 0, bi(-9), 128, []*big.Int{bi(3), bi(0), bi(0), bi(0)}, ctx, nonce, 2)
		}},
		{"factor 0: 0*m >= 5 (false) with fake squares", func() *gabi.ProofD {
			return refRangeProof(x, cred, []int{1}, 2, mm, 1, 0, bi(5), 128, []*big.Int{bi(1), bi(2), bi(0), bi(0)}, ctx, nonce, 2)
		}},
		{"three squares with a=1", func() *gabi.ProofD {
			return refRangeProof(x, cred, []int{1}, 2, mm, 1, 1, bi(1), 128, threeOf(delta), ctx, nonce, 2)
		}},
		{"three squares with a=4 k=4*1-2 (honest shape)", func() *gabi.ProofD {
			return refRangeProof(x, cred, []int{1}, 2, mm, 1, 4, bi(2), 8, threeOf(bi(4*m-2)), ctx, nonce, 2)
		}},
		// three-square descriptors that no honest prover emits (k not 2 mod 4) but that state TRUE relations exactly at the boundary:
		// whatever the library then reports or affirms must still be true for m
		{"three squares sign -1 k=4m (4m <= 4m)", func() *gabi.ProofD {
			return refRangeProof(x, cred, []int{1}, 2, mm, -1, 4, bi(4*m), 8, threeOf(bi(0)), ctx, nonce, 2)
		}},
		{"three squares sign -1 k=4m+1", func() *gabi.ProofD {
			return refRangeProof(x, cred, []int{1}, 2, mm, -1, 4, bi(4*m+1), 8, threeOf(bi(1)), ctx, nonce, 2)
		}},
		{"three squares sign -1 k=4m+3", func() *gabi.ProofD {
			return refRangeProof(x, cred, []int{1}, 2, mm, -1, 4, bi(4*m+3), 8, threeOf(bi(3)), ctx, nonce, 2)
		}},
		{"three squares sign +1 k=4m (4m >= 4m)", func() *gabi.ProofD {
			return refRangeProof(x, cred, []int{1}, 2, mm, 1, 4, bi(4*m), 8, threeOf(bi(0)), ctx, nonce, 2)
		}},
		{"three squares sign +1 k=4m-1", func() *gabi.ProofD {
			return refRangeProof(x, cred, []int{1}, 2, mm, 1, 4, bi(4*m-1), 8, threeOf(bi(1)), ctx, nonce, 2)
		}},
		{"three squares sign +1 k=4m-3", func() *gabi.ProofD {
			return refRangeProof(x, cred, []int{1}, 2, mm, 1, 4, bi(4*m-3), 8, threeOf(bi(3)), ctx, nonce, 2)
		}},
		{"four squares factor 3 sign -1 k=3m (boundary)", func() *gabi.ProofD {
			return refRangeProof(x, cred, []int{1}, 2, mm, -1, 3, bi(3*m), 128, []*big.Int{bi(0), bi(0), bi(0), bi(0)}, ctx, nonce, 2)
		}},
		{"four squares factor 3 sign +1 k=3m-2", func() *gabi.ProofD {
			return refRangeProof(x, cred, []int{1}, 2, mm, 1, 3, bi(3*m-2), 128, []*big.Int{bi(1), bi(1), bi(0), bi(0)}, ctx, nonce, 2)
		}},
		{"two squares", func() *gabi.ProofD {
			return refRangeProof(x, cred, []int{1}, 2, mm, 1, 1, sub(bi(m), bi(5)), 128, []*big.Int{bi(1), bi(2)}, ctx, nonce, 2)
		}},
		{"five squares", func() *gabi.ProofD {
			return refRangeProof(x, cred, []int{1}, 2, mm, 1, 1, sub(bi(m), bi(5)), 128, []*big.Int{bi(1), bi(2), bi(0), bi(0), bi(0)}, ctx, nonce, 2)
		}},
		{"k of Lm+64 bits exactly (true: m <= k)", func() *gabi.ProofD {
			k := sub(pow2(pk.Params.Lm+64), bigOne)
			dl := sub(k, bi(m))
			return refRangeProof(x, cred, []int{1}, 2, mm, -1, 1, k, pk.Params.Lm, bigFourSquares(dl), ctx, nonce, 2)
		}},
	}
	// bounds beyond the machine word: the squares prove m >= m-1 (true), the descriptor announces (and the challenge covers) that
	// bound plus 2^63, 2^64, 2^65, 2^128 - a false statement whose low 64 bits are those of the true one
	for _, sh := range []uint{63, 64, 65, 128} {
		for _, sg := range []int{1, -1} {
			sh, sg := sh, sg
			kTrue := bi(m - int64(sg))
			kBig := add(kTrue, mul(bi(int64(sg)), pow2(sh)))
			refs = append(refs, struct {
				name string
				f    func() *gabi.ProofD
			}{fmt.Sprintf("bound moved by %d*2^%d (false), squares of the true difference", sg, sh), func() *gabi.ProofD {
				return refRangeProof(x, cred, []int{1}, 2, mm, sg, 1, kBig, 128, refimpl.FourSquares(bi(1)), ctx, nonce, 2)
			}})
		}
	}
	// three squares with every small factor other than 4: the relation a*m >= k (resp. <=) proved is true, what a verifier
	// would read from such a descriptor (factor a/4, bound k/4) need not be
	for _, a := range []uint{0, 2, 3, 5, 6, 7, 8, 9, 12, 16} {
		for _, sg := range []int{1, -1} {
			for _, dl := range []int64{0, 1, 2} {
				a, sg, dl := a, sg, dl
				k := bi(int64(a)*m - int64(sg)*dl)
				refs = append(refs, struct {
					name string
					f    func() *gabi.ProofD
				}{fmt.Sprintf("three squares a=%d sign %d k=%d*m%+d (true relation)", a, sg, a, -int64(sg)*dl), func() *gabi.ProofD {
					return refRangeProof(x, cred, []int{1}, 2, mm, sg, a, k, 8, threeOf(bi(dl)), ctx, nonce, 2)
				}})
			}
		}
	}
	for _, rf := range refs {
		var d *gabi.ProofD
		pv, _ := mon.Try(func() { d = rf.f() })
		if pv != nil || d == nil {
			r.Eval("edge-ref", "error")
			continue
		}
		x.verifyAndJudge("edge-ref", fmt.Sprintf("m=%d %s", m, rf.name), d, cred, ctx, nonce, true)
	}
}

func threeOf(n *big.Int) []*big.Int {
	if n.Sign() < 0 || !n.IsInt64() {
		return []*big.Int{bi(0), bi(0), bi(0)}
	}
	N := n.Int64()
	for a := int64(0); a*a <= N; a++ {
		for b := a; a*a+b*b <= N; b++ {
			rest := N - a*a - b*b
			c := new(big.Int).Sqrt(bi(rest)).Int64()
			if c*c == rest {
				return []*big.Int{bi(a), bi(b), bi(c)}
			}
		}
	}
	return []*big.Int{bi(0), bi(0), bi(0)}
}

// bigFourSquares uses the (re-exported) library splitter only to obtain SOME decomposition for a huge true difference.
func bigFourSquares(n *big.Int) []*big.Int {
	s := &rangeproof.FourSquaresSplitter{}
	ds, err := s.Split(n)
	if err != nil {
		return nil
	}
	return ds
}

func c12Transplants(x *c12ctx, jr *rand.Rand, idx int) {
	r := x.r
	m := int64(30 + jr.IntN(50))
	// attribute 2 = m satisfies m >= 18; attribute 3 = 5 does not; attribute 1 disclosed; attribute 4 = m too (same value elsewhere)
	cred, _ := x.key.SignCred([]*big.Int{randBig(jr, 250), bi(7), bi(m), bi(5), bi(m)})
	other, _ := x.key.SignCred([]*big.Int{randBig(jr, 250), bi(7), bi(3), bi(5), bi(2)})
	ctx, nonce := freshNonces(jr)
	st := x.statement(1, 1, 18, false)
	st3 := x.statement(1, 1, 18, true)
	honest, err := cred.C.CreateDisclosureProof([]int{1}, map[int][]*rangeproof.Statement{2: {st, st3}}, false, ctx, nonce)
	if err != nil {
		r.Eval("transplant", "error")
		return
	}
	if !x.verifyAndJudge("lib-honest", fmt.Sprintf("m=%d two statements", m), honest, cred, ctx, nonce, true) {
		return
	}
	xc := *x
	xc.warmBase, xc.warmCred, xc.warmCtx, xc.warmNonce = honest, cred, ctx, nonce
	x = &xc
	mv := func(name string, f func(d *gabi.ProofD)) {
		d := cloneD(honest)
		f(d)
		x.verifyAndJudge("transplant", fmt.Sprintf("m=%d %s", m, name), d, cred, ctx, nonce, false)
	}
	for _, to := range []int{0, 1, 3, 4, 5, len(x.key.PK.R) - 1} {
		to := to
		mv(fmt.Sprintf("range proofs moved 2 -> %d", to), func(d *gabi.ProofD) { d.RangeProofs[to] = d.RangeProofs[2]; delete(d.RangeProofs, 2) })
		mv(fmt.Sprintf("range proofs copied 2 -> %d", to), func(d *gabi.ProofD) { d.RangeProofs[to] = []*rangeproof.Proof{cloneRange(d.RangeProofs[2][0])} })
	}
	mv("second statement dropped", func(d *gabi.ProofD) { d.RangeProofs[2] = d.RangeProofs[2][:1] })
	mv("statements swapped", func(d *gabi.ProofD) {
		d.RangeProofs[2][0], d.RangeProofs[2][1] = d.RangeProofs[2][1], d.RangeProofs[2][0]
	})
	mv("statement duplicated", func(d *gabi.ProofD) { d.RangeProofs[2] = append(d.RangeProofs[2], cloneRange(d.RangeProofs[2][0])) })
	// the same range proof inside a proof of another credential (whose attribute does not satisfy it)
	op, err := other.C.CreateDisclosureProof([]int{1}, nil, false, ctx, nonce)
	if err == nil {
		d := cloneD(op)
		d.RangeProofs = map[int][]*rangeproof.Proof{2: {cloneRange(honest.RangeProofs[2][0])}}
		x.verifyAndJudge("transplant", fmt.Sprintf("m=%d range proof into another credential's proof", m), d, other, ctx, nonce, false)
	}
	// reference prover: range proof about a claimed value at a DISCLOSED index, at an unknown index, and about another hidden attribute's value
	ds := refimpl.FourSquares(bi(m - 18))
	for _, c := range []struct {
		name   string
		D      []int
		attach int
		key    int
	}{
		{"claimed at disclosed index 1", []int{1}, 1, 1},
		{"proved for hidden 2, keyed to disclosed 1", []int{1}, 2, 1},
		{"proved for hidden 2, keyed to unknown index", []int{1}, 2, len(x.key.PK.R) - 1},
		{"proved for hidden 2 (true), keyed to hidden 3 (false there)", []int{1}, 2, 3},
		{"proved for hidden 4 (same value), keyed to 2", []int{1}, 4, 2},
	} {
		var d *gabi.ProofD
		pv, _ := mon.Try(func() { d = refRangeProof(x, cred, c.D, c.attach, bi(m), 1, 1, bi(18), 128, ds, ctx, nonce, c.key) })
		if pv != nil || d == nil {
			continue
		}
		x.verifyAndJudge("transplant", fmt.Sprintf("m=%d ref: %s", m, c.name), d, cred, ctx, nonce, false)
	}
	// single-field alterations
	rp0 := honest.RangeProofs[2][0]
	alt := func(name string, f func(p *rangeproof.Proof)) {
		d := cloneD(honest)
		f(d.RangeProofs[2][0])
		x.verifyAndJudge("alter", fmt.Sprintf("m=%d %s", m, name), d, cred, ctx, nonce, false)
	}
	for i := range rp0.Cs {
		i := i
		alt(fmt.Sprintf("Cs[%d]+1", i), func(p *rangeproof.Proof) { p.Cs[i] = add(p.Cs[i], bigOne) })
		alt(fmt.Sprintf("ds[%d]+1", i), func(p *rangeproof.Proof) { p.DResponses[i] = add(p.DResponses[i], bigOne) })
		alt(fmt.Sprintf("vs[%d]+1", i), func(p *rangeproof.Proof) { p.VResponses[i] = add(p.VResponses[i], bigOne) })
		alt(fmt.Sprintf("ds[%d] negated", i), func(p *rangeproof.Proof) { p.DResponses[i] = new(big.Int).Neg(p.DResponses[i]) })
	}
	alt("v5+1", func(p *rangeproof.Proof) { p.V5Response = add(p.V5Response, bigOne) })
	alt("k+1", func(p *rangeproof.Proof) { p.K = add(p.K, bigOne) })
	alt("k-1", func(p *rangeproof.Proof) { p.K = sub(p.K, bigOne) })
	alt("k:=0", func(p *rangeproof.Proof) { p.K = bi(0) })
	alt("k:=m+1000", func(p *rangeproof.Proof) { p.K = bi(m + 1000) })
	alt("k negated", func(p *rangeproof.Proof) { p.K = new(big.Int).Neg(p.K) })
	alt("sign flipped", func(p *rangeproof.Proof) { p.Sign = -p.Sign })
	alt("sign 0", func(p *rangeproof.Proof) { p.Sign = 0 })
	alt("a:=2", func(p *rangeproof.Proof) { p.A = 2 })
	alt("a:=0", func(p *rangeproof.Proof) { p.A = 0 })
	alt("a:=2^63", func(p *rangeproof.Proof) { p.A = 1 << 63 })
	alt("a:=2^64-1", func(p *rangeproof.Proof) { p.A = math.MaxUint64 })
	alt("l_d 0", func(p *rangeproof.Proof) { p.Ld = 0 })
	alt("l_d raised (not hashed: may stay valid)", func(p *rangeproof.Proof) { p.Ld = 200 })
	alt("l_d above Lm", func(p *rangeproof.Proof) { p.Ld = 257 })
	alt("Cs cut to 3 (a stays)", func(p *rangeproof.Proof) {
		p.Cs, p.DResponses, p.VResponses = p.Cs[:3], p.DResponses[:3], p.VResponses[:3]
	})
	if idx%8 == 0 {
		r.Sample(map[string]any{"transplant_job": idx, "m": m})
	}
}
