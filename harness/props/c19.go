package props

import (
	"bufio"
	"encoding/json"
	"fmt"
	"math/rand/v2"
	"os"
	"os/exec"
	"path/filepath"
	"runtime"
	"strings"
	"sync"
	"sync/atomic"
	"time"

	"github.com/privacybydesign/gabi/big"
	"github.com/privacybydesign/gabi/safeprime"
	"github.com/privacybydesign/gabi/verifhooks"
	"github.com/privacybydesign/gabi/zkproof"

	"verifharness/mon"
)

func init() {
	Registry["C19"] = &Check{
		Level: "exploration",
		Rule: "reference equivalence, exhaustive on small domains and seeded random on large ones: ModInverse (all a<n<2^9|2^10), ModPow (small x,m, y in [-20,20]), LegendreSymbol (all a in [-p,2p] for all odd primes p<2^11|2^12 vs Euler's criterion; random up to 4096 bits vs Jacobi), Crt (all coprime moduli <48|64, all residues), " +
			"PrimeSqrt (all a mod p for all primes p<2^11|2^12 incl. p=1 mod 8/16), ModSqrt (products of 2-3 distinct primes and the factor 4 vs brute force), SumFourSquares (all n<2^14|2^18, random up to 1024 bits, 4096 bits in the thorough tier), FastMod (every modulus of <=10|12 bits, every x in [-2^12,2^14], huge/negative x, aliased operands), " +
			"RandomPrimeInRange (all start 2..12 x length 2..24 plus production sizes from a seeded reader), safeprime.Generate (16..256 bits), ProbablySafePrime (all x<2^16 vs sieve, primes with composite (p-1)/2), Group.Exp (all exponents in (-q,q) for small safe-prime groups, random for large); " +
			"non-trivial = every evaluation (each is compared in full); distinct by (function, input) hash (counted per function and domain block for the exhaustive parts); a recorded sample is re-derived by Python in the thorough tier",
		Run: runC19,
	}
}

type c19 struct {
	r    *mon.Run
	lg   *c15logger
	seen sync.Map
}

func (x *c19) fail(fn, msg string, in map[string]any) {
	x.r.Violation("C19/"+fn+"-wrong", fn+": "+msg, in)
}

func primesBelow(n int) []int {
	sieve := make([]bool, n)
	var out []int
	for i := 2; i < n; i++ {
		if !sieve[i] {
			out = append(out, i)
			for j := i * i; j < n; j += i {
				sieve[j] = true
			}
		}
	}
	return out
}

func runC19(r *mon.Run) {
	x := &c19{r: r}
	var logPath string
	if r.Thorough() {
		dir, err := os.MkdirTemp("", "c19log")
		if err == nil {
			logPath = filepath.Join(dir, "c19.jsonl")
			f, err := os.Create(logPath)
			if err == nil {
				x.lg = &c15logger{w: bufio.NewWriterSize(f, 1<<20), f: f}
			}
			defer os.RemoveAll(dir)
		}
	}
	steps := []func(){x.modInverse, x.modPow, x.legendre, x.crt, x.sqrt, x.fourSquares, x.fastMod, x.randomPrime, x.safePrimes, x.groupExp}
	var wg sync.WaitGroup
	names := []string{"modInverse", "modPow", "legendre", "crt", "sqrt", "fourSquares", "fastMod", "randomPrime", "safePrimes", "groupExp"}
	for si, s := range steps {
		wg.Add(1)
		go func(f func(), name string) {
			defer wg.Done()
			t0 := time.Now()
			defer func() { r.Set("seconds_"+name, time.Since(t0).Seconds()) }()
			pv, stack := mon.Try(f)
			if pv != nil {
				r.Violation("C19/helper-panics", fmt.Sprintf("a helper panicked on an input of its domain: %v [%s]", pv, stack), map[string]any{"stack": stack})
			}
		}(s, names[si])
	}
	// generous watchdog: a family that never returns must not hang the check (its helper calls are themselves bounded
	// where a seeded change is known to loop; a family-level expiry is inconclusive, not a violation)
	allDone := make(chan struct{})
	go func() { wg.Wait(); close(allDone) }()
	select {
	case <-allDone:
	case <-time.After(time.Duration(r.Pick(20, 120)) * time.Minute):
		r.Inconclusive("a family of C19 did not finish within the watchdog period")
		return
	}
	if x.lg != nil {
		x.lg.w.Flush()
		x.lg.f.Close()
		script := filepath.Join(mon.Dir(), "pyref", "nt.py")
		out, err := exec.Command("python3", script, logPath).CombinedOutput()
		r.Set("python_second_opinion", strings.TrimSpace(string(out)))
		r.Set("python_records", x.lg.n)
		if err != nil {
			if strings.Contains(string(out), "mismatches") {
				r.Violation("C19/python-reference-disagrees", "Python re-derivation disagrees: "+strings.TrimSpace(string(out)), map[string]any{"output": string(out)})
			} else {
				r.Inconclusive("python second opinion could not run: " + err.Error() + " " + string(out))
			}
		}
	}
	for _, f := range []string{"ModInverse", "ModPow", "LegendreSymbol", "Crt", "PrimeSqrt", "ModSqrt", "SumFourSquares", "FastMod", "RandomPrimeInRange", "safeprime.Generate", "ProbablySafePrime", "Group.Exp"} {
		f := f
		min := int64(50)
		r.Floor("evaluations of "+f, min, func() int64 { return r.Get("evaluations_" + f) })
	}
}

// bounded runs f (a few microseconds of arithmetic) in its own goroutine and reports whether it returned. The verdict is
// not a bare deadline: after 20 s without a return the caller's goroutine performs a fixed reference workload (2000
// modular exponentiations of 2048 bits) - if the machine is so loaded that this takes long, the wait is extended by as much -
// and only a call that has still not returned afterwards counts as non-terminating. The abandoned goroutine keeps spinning
// until the process exits.
func (x *c19) bounded(fn string, f func()) bool {
	done := make(chan struct{})
	go func() {
		defer func() { recover(); close(done) }()
		f()
	}()
	select {
	case <-done:
		return true
	case <-time.After(20 * time.Second):
	}
	b, e, m := pow2(2047), pow2(2040), sub(pow2(2048), bi(159))
	for i := 0; i < 2000; i++ {
		b.Exp(b, e, m)
	}
	select {
	case <-done:
		return true
	case <-time.After(20 * time.Second):
		x.r.Add("helper_calls_abandoned", 1)
		return false
	}
}

func (x *c19) count(fn string, n int64) {
	for i := int64(0); i < n; i++ {
		x.r.Eval(fn, "accept")
	}
}

func (x *c19) modInverse() {
	r := x.r
	max := int64(r.Pick(512, 1024))
	var n int64
	for m := int64(2); m < max; m++ {
		M := bi(m)
		for a := int64(0); a < m; a++ {
			A := bi(a)
			ia, ok := verifhooks.ModInverse(A, M)
			g := new(big.Int).GCD(nil, nil, A, M)
			want := g.Cmp(bigOne) == 0
			n++
			if ok != want {
				x.fail("ModInverse", fmt.Sprintf("existence of the inverse of %d mod %d reported as %v", a, m, ok), map[string]any{"a": a, "n": m})
				return
			}
			if ok {
				if ia.Sign() < 0 || ia.Cmp(M) >= 0 || new(big.Int).Mod(mul(ia, A), M).Cmp(new(big.Int).Mod(bigOne, M)) != 0 {
					x.fail("ModInverse", fmt.Sprintf("ModInverse(%d, %d) = %s", a, m, dumpInt(ia)), map[string]any{"a": a, "n": m})
					return
				}
				if x.lg != nil && (a*m)%997 == 0 {
					x.lg.log(map[string]any{"fn": "ModInverse", "a": A.String(), "n": M.String(), "out": ia.String()})
				}
			}
			if A.Cmp(bi(a)) != 0 || M.Cmp(bi(m)) != 0 {
				x.fail("ModInverse", "operands modified", map[string]any{"a": a, "n": m})
				return
			}
		}
		r.Distinct("ModInverse", m)
	}
	rng := r.Rand("modinv")
	for i := 0; i < r.Pick(2000, 50000); i++ {
		M := add(randBig(rng, 2+rng.IntN(2048)), bi(2))
		A := new(big.Int).Mod(randBig(rng, 2100), M)
		ia, ok := verifhooks.ModInverse(A, M)
		want := new(big.Int).GCD(nil, nil, A, M).Cmp(bigOne) == 0
		n++
		if ok != want || (ok && new(big.Int).Mod(mul(ia, A), M).Cmp(bigOne) != 0) {
			x.fail("ModInverse", "wrong on a random large operand", map[string]any{"a": dumpInt(A), "n": dumpInt(M)})
			return
		}
	}
	x.count("ModInverse", n/1000+1)
	r.Add("evaluations_ModInverse", n)
}

func (x *c19) modPow() {
	r := x.r
	var n int64
	maxM := int64(r.Pick(64, 160))
	for m := int64(2); m < maxM; m++ {
		// every representative of the base in [-m, 2m): the result is the residue in [0, m) whatever the sign of base and exponent
		for bb := -m; bb < 2*m; bb++ {
			b := ((bb % m) + m) % m
			for y := int64(-20); y <= 20; y++ {
				got, err := verifhooks.ModPow(bi(bb), bi(y), bi(m))
				n++
				inv := new(big.Int).ModInverse(bi(b), bi(m))
				if y < 0 && inv == nil {
					if err == nil {
						x.fail("ModPow", fmt.Sprintf("%d^%d mod %d: no inverse exists but a value was returned", b, y, m), map[string]any{"x": b, "y": y, "m": m})
						return
					}
					continue
				}
				if err != nil {
					x.fail("ModPow", fmt.Sprintf("%d^%d mod %d: unexpected error %v", b, y, m, err), map[string]any{"x": b, "y": y, "m": m})
					return
				}
				// brute force
				base := b
				e := y
				if y < 0 {
					base = inv.Int64()
					e = -y
				}
				want := int64(1) % m
				for k := int64(0); k < e; k++ {
					want = want * base % m
				}
				if got.Cmp(bi(want)) != 0 {
					x.fail("ModPow", fmt.Sprintf("%d^%d mod %d = %s, expected %d", bb, y, m, dumpInt(got), want), map[string]any{"x": bb, "y": y, "m": m})
					return
				}
			}
		}
		r.Distinct("ModPow", m)
	}
	// large operands, all sign combinations (reference: math/big on the reduced base)
	rng := r.Rand("modpow-large")
	for i := 0; i < r.Pick(400, 4000); i++ {
		m := randBig(rng, 16+rng.IntN(1200))
		if m.Cmp(bi(2)) < 0 {
			continue
		}
		bx := randBig(rng, 1+rng.IntN(1400))
		if i%2 == 1 {
			bx.Neg(bx)
		}
		y := randBig(rng, 1+rng.IntN(300))
		if i%4 >= 2 {
			y.Neg(y)
		}
		got, err := verifhooks.ModPow(cp(bx), cp(y), cp(m))
		n++
		b := new(big.Int).Mod(bx, m)
		var want *big.Int
		if y.Sign() < 0 {
			inv := new(big.Int).ModInverse(b, m)
			if inv == nil {
				if err == nil {
					x.fail("ModPow", "no inverse exists but a value was returned (large operands)", map[string]any{"x": dumpInt(bx), "y": dumpInt(y), "m": dumpInt(m)})
					return
				}
				continue
			}
			want = new(big.Int).Exp(inv, new(big.Int).Neg(y), m)
		} else {
			want = new(big.Int).Exp(b, y, m)
		}
		if err != nil || got == nil || got.Cmp(want) != 0 {
			x.fail("ModPow", fmt.Sprintf("large operands (base sign %d, exponent sign %d): got %s (err=%v), expected %s", bx.Sign(), y.Sign(), dumpInt(got), err, dumpInt(want)), map[string]any{"x": dumpInt(bx), "y": dumpInt(y), "m": dumpInt(m)})
			return
		}
		r.Distinct("ModPow-large", i)
	}
	x.count("ModPow", n/1000+1)
	r.Add("evaluations_ModPow", n)
}

func (x *c19) legendre() {
	r := x.r
	var n int64
	ps := primesBelow(r.Pick(2048, 4096))
	for _, p := range ps[1:] {
		P := bi(int64(p))
		half := bi(int64((p - 1) / 2))
		euler := make([]int, p)
		for a := 0; a < p; a++ {
			e := new(big.Int).Exp(bi(int64(a)), half, P).Int64()
			switch {
			case a == 0:
				euler[a] = 0
			case e == 1:
				euler[a] = 1
			default:
				euler[a] = -1
			}
		}
		for a := -p; a <= 2*p; a++ {
			got := verifhooks.LegendreSymbol(bi(int64(a)), P)
			want := euler[((a%p)+p)%p]
			n++
			if got != want {
				x.fail("LegendreSymbol", fmt.Sprintf("(%d/%d) = %d, Euler's criterion gives %d", a, p, got, want), map[string]any{"a": a, "p": p})
				return
			}
		}
		r.Distinct("LegendreSymbol", p)
		if x.lg != nil && p%97 == 3 {
			x.lg.log(map[string]any{"fn": "LegendreSymbol", "a": "12345", "p": P.String(), "out": fmt.Sprint(verifhooks.LegendreSymbol(bi(12345), P))})
		}
	}
	rng := r.Rand("legendre")
	for i := 0; i < r.Pick(1500, 40000); i++ {
		m := randBig(rng, 2+rng.IntN(4096))
		m.SetBit(m, 0, 1)
		if m.Cmp(bigOne) == 0 {
			continue
		}
		a := randBig(rng, 1+rng.IntN(4200))
		if rng.IntN(4) == 0 {
			a.Neg(a)
		}
		got := verifhooks.LegendreSymbol(a, m)
		want := big.Jacobi(a, m)
		n++
		if got != want {
			x.fail("LegendreSymbol", "differs from the Jacobi symbol on a random operand", map[string]any{"a": dumpInt(a), "p": dumpInt(m), "got": got, "want": want})
			return
		}
	}
	x.count("LegendreSymbol", n/1000+1)
	r.Add("evaluations_LegendreSymbol", n)
}

func (x *c19) crt() {
	r := x.r
	var n int64
	max := int64(r.Pick(48, 64))
	for pa := int64(2); pa < max; pa++ {
		for pb := int64(2); pb < max; pb++ {
			if new(big.Int).GCD(nil, nil, bi(pa), bi(pb)).Cmp(bigOne) != 0 {
				continue
			}
			for a := int64(0); a < pa; a++ {
				for b := int64(0); b < pb; b++ {
					got := verifhooks.Crt(bi(a), bi(pa), bi(b), bi(pb))
					n++
					if got.Sign() < 0 || got.Cmp(bi(pa*pb)) >= 0 || new(big.Int).Mod(got, bi(pa)).Int64() != a || new(big.Int).Mod(got, bi(pb)).Int64() != b {
						x.fail("Crt", fmt.Sprintf("Crt(%d mod %d, %d mod %d) = %s", a, pa, b, pb, dumpInt(got)), map[string]any{"a": a, "pa": pa, "b": b, "pb": pb})
						return
					}
				}
			}
			r.Distinct("Crt", pa, pb)
		}
	}
	rng := r.Rand("crt")
	for i := 0; i < r.Pick(500, 20000); i++ {
		pa := nextPrime(randBig(rng, 8+rng.IntN(600)))
		pb := nextPrime(add(randBig(rng, 8+rng.IntN(600)), bi(3)))
		if pa.Cmp(pb) == 0 {
			continue
		}
		a := new(big.Int).Mod(randBig(rng, 700), pa)
		b := new(big.Int).Mod(randBig(rng, 700), pb)
		got := verifhooks.Crt(a, pa, b, pb)
		n++
		if got.Sign() < 0 || got.Cmp(mul(pa, pb)) >= 0 || new(big.Int).Mod(got, pa).Cmp(a) != 0 || new(big.Int).Mod(got, pb).Cmp(b) != 0 {
			x.fail("Crt", "wrong on random large operands", map[string]any{"a": dumpInt(a), "pa": dumpInt(pa), "b": dumpInt(b), "pb": dumpInt(pb)})
			return
		}
		if x.lg != nil && i%20 == 0 {
			x.lg.log(map[string]any{"fn": "Crt", "a": a.String(), "pa": pa.String(), "b": b.String(), "pb": pb.String(), "out": got.String()})
		}
	}
	x.count("Crt", n/1000+1)
	r.Add("evaluations_Crt", n)
}

func (x *c19) sqrt() {
	r := x.r
	var n, n2 int64
	ps := primesBelow(r.Pick(2048, 4096))
	for _, p := range ps[1:] {
		P := bi(int64(p))
		isSq := make([]bool, p)
		for t := 0; t < p; t++ {
			isSq[t*t%p] = true
		}
		for a := 0; a < p; a++ {
			A := bi(int64(a))
			root, ok := verifhooks.PrimeSqrt(A, P)
			n++
			if ok != isSq[a] {
				x.fail("PrimeSqrt", fmt.Sprintf("existence of sqrt(%d) mod %d reported as %v", a, p, ok), map[string]any{"a": a, "p": p, "p_mod_16": p % 16})
				return
			}
			if ok && new(big.Int).Mod(mul(root, root), P).Int64() != int64(a) {
				x.fail("PrimeSqrt", fmt.Sprintf("sqrt(%d) mod %d = %s", a, p, dumpInt(root)), map[string]any{"a": a, "p": p, "p_mod_16": p % 16})
				return
			}
			if A.Int64() != int64(a) || P.Int64() != int64(p) {
				x.fail("PrimeSqrt", "operands modified", map[string]any{"a": a, "p": p})
				return
			}
		}
		r.Distinct("PrimeSqrt", p)
	}
	// ModSqrt: composite moduli from 2-3 distinct odd primes and optionally the factor 4
	small := primesBelow(60)[1:]
	for i := 0; i < len(small); i++ {
		for j := i + 1; j < len(small); j++ {
			for _, with4 := range []bool{false, true} {
				for k := -1; k < len(small); k += 5 {
					if k >= 0 && k <= j {
						continue
					}
					factors := []*big.Int{bi(int64(small[i])), bi(int64(small[j]))}
					mod := small[i] * small[j]
					if k >= 0 {
						factors = append(factors, bi(int64(small[k])))
						mod *= small[k]
					}
					if with4 {
						factors = append([]*big.Int{bi(4)}, factors...)
						mod *= 4
					}
					if mod > 40000 && !r.Thorough() {
						continue
					}
					isSq := make([]bool, mod)
					for t := 0; t < mod; t++ {
						isSq[t*t%mod] = true
					}
					stepA := 1
					if mod > 5000 {
						stepA = 7
					}
					for a := 0; a < mod; a += stepA {
						root, ok := verifhooks.ModSqrt(bi(int64(a)), factors)
						n2++
						if ok != isSq[a] {
							x.fail("ModSqrt", fmt.Sprintf("existence of sqrt(%d) mod %d (factors %v) reported as %v", a, mod, dumpInts(factors), ok), map[string]any{"a": a, "factors": dumpInts(factors)})
							return
						}
						if ok && new(big.Int).Mod(mul(root, root), bi(int64(mod))).Int64() != int64(a) {
							x.fail("ModSqrt", fmt.Sprintf("sqrt(%d) mod %d = %s", a, mod, dumpInt(root)), map[string]any{"a": a, "factors": dumpInts(factors)})
							return
						}
					}
					r.Distinct("ModSqrt", mod, with4)
				}
			}
		}
	}
	rng := r.Rand("sqrt")
	for i := 0; i < r.Pick(300, 6000); i++ {
		p := nextPrime(randBig(rng, 16+rng.IntN(500)))
		q := nextPrime(add(randBig(rng, 16+rng.IntN(500)), bi(2)))
		if p.Cmp(q) == 0 {
			continue
		}
		t := randBig(rng, 900)
		nn := mul(p, q)
		a := new(big.Int).Mod(mul(t, t), nn)
		root, ok := verifhooks.ModSqrt(a, []*big.Int{p, q})
		n2++
		if !ok || new(big.Int).Mod(mul(root, root), nn).Cmp(a) != 0 {
			x.fail("ModSqrt", "wrong root for a square modulo a random product of two primes", map[string]any{"a": dumpInt(a), "p": dumpInt(p), "q": dumpInt(q)})
			return
		}
		// a non-residue modulo p must be reported as not a square
		for k := 0; k < 20; k++ {
			c := new(big.Int).Mod(randBig(rng, 900), nn)
			if big.Jacobi(c, p) == -1 {
				if _, ok := verifhooks.ModSqrt(c, []*big.Int{p, q}); ok {
					x.fail("ModSqrt", "a non-residue is reported as square", map[string]any{"a": dumpInt(c), "p": dumpInt(p), "q": dumpInt(q)})
					return
				}
				n2++
				break
			}
		}
	}
	x.count("PrimeSqrt", n/1000+1)
	x.count("ModSqrt", n2/100+1)
	r.Add("evaluations_PrimeSqrt", n)
	r.Add("evaluations_ModSqrt", n2)
}

func (x *c19) fourSquares() {
	r := x.r
	max := int64(1) << uint(r.Pick(14, 18))
	var bad atomic.Bool
	var n atomic.Int64
	workers := runtime.NumCPU() / 2
	if workers < 1 {
		workers = 1
	}
	chunk := max / 64
	mon.Parallel(64, workers, func(c int) {
		for v := int64(c) * chunk; v < int64(c+1)*chunk && !bad.Load(); v++ {
			N := bi(v)
			a, b, cc, d := verifhooks.SumFourSquares(N)
			n.Add(1)
			s := add(add(mul(a, a), mul(b, b)), add(mul(cc, cc), mul(d, d)))
			if s.Cmp(N) != 0 || N.Int64() != v {
				bad.Store(true)
				x.fail("SumFourSquares", fmt.Sprintf("%d != %s^2+%s^2+%s^2+%s^2", v, dumpInt(a), dumpInt(b), dumpInt(cc), dumpInt(d)), map[string]any{"n": v, "n_mod_8": v % 8})
			}
			if x.lg != nil && v%4099 == 0 {
				x.lg.log(map[string]any{"fn": "SumFourSquares", "n": N.String(), "out": []string{a.String(), b.String(), cc.String(), d.String()}})
			}
		}
		r.Distinct("SumFourSquares-block", c)
	})
	rng := r.Rand("foursq")
	for i := 0; i < r.Pick(150, 3000) && !bad.Load(); i++ {
		bits := 17 + rng.IntN(496)
		if i%8 == 0 {
			bits = 513 + rng.IntN(512)
		}
		if r.Thorough() && i%1500 == 7 {
			bits = 4096
		}
		N := randBig(rng, bits)
		switch rng.IntN(4) {
		case 0:
			N.Lsh(N, uint(2*rng.IntN(20))) // multiples of powers of 4
		case 1:
			N = add(mul(N, bi(8)), bi(7)) // 7 mod 8
		}
		orig := cp(N)
		a, b, cc, d := verifhooks.SumFourSquares(N)
		n.Add(1)
		s := add(add(mul(a, a), mul(b, b)), add(mul(cc, cc), mul(d, d)))
		if s.Cmp(orig) != 0 || N.Cmp(orig) != 0 {
			x.fail("SumFourSquares", "wrong decomposition of a random large number (or operand modified)", map[string]any{"n": dumpInt(orig)})
			return
		}
	}
	x.count("SumFourSquares", n.Load()/1000+1)
	r.Add("evaluations_SumFourSquares", n.Load())
}

func (x *c19) fastMod() {
	r := x.r
	var n int64
	maxBits := r.Pick(10, 12)
	lo, hi := int64(-1<<12), int64(1<<14)
	for b := 2; b <= maxBits; b++ {
		for m := int64(1) << uint(b-1); m < int64(1)<<uint(b); m++ {
			var fm verifhooks.FastMod
			M := bi(m)
			fm.Set(M)
			for v := lo; v <= hi; v++ {
				V := bi(v)
				var ret big.Int
				fm.Mod(&ret, V)
				n++
				want := ((v % m) + m) % m
				if ret.Int64() != want || V.Int64() != v {
					x.fail("FastMod", fmt.Sprintf("%d mod %d = %s, expected %d", v, m, dumpInt(&ret), want), map[string]any{"x": v, "p": m})
					return
				}
			}
			// aliased operand
			for _, v := range []int64{-5, 0, m - 1, m, m + 1, 3*m + 2, 1 << 30} {
				V := bi(v)
				fm.Mod(V, V)
				n++
				if V.Int64() != ((v%m)+m)%m {
					x.fail("FastMod", fmt.Sprintf("aliased: %d mod %d = %s", v, m, dumpInt(V)), map[string]any{"x": v, "p": m, "aliased": true})
					return
				}
			}
			r.Distinct("FastMod", m)
		}
	}
	rng := r.Rand("fastmod")
	for i := 0; i < r.Pick(3000, 60000); i++ {
		bits := uint(8 + rng.IntN(2048))
		c := randBig(rng, 1+rng.IntN(70)) // c >= 2^59 switches the fast path off: both paths are covered
		p := sub(pow2(bits), add(c, bigOne))
		if p.Sign() <= 0 {
			continue
		}
		var fm verifhooks.FastMod
		fm.Set(p)
		v := randBig(rng, 1+rng.IntN(3*int(bits)))
		if rng.IntN(4) == 0 {
			v.Neg(v)
		}
		want := new(big.Int).Mod(v, p)
		var ret big.Int
		fm.Mod(&ret, v)
		n++
		if ret.Cmp(want) != 0 {
			x.fail("FastMod", "wrong on random large operands", map[string]any{"x": dumpInt(v), "p": dumpInt(p)})
			return
		}
		al := cp(v)
		fm.Mod(al, al)
		if al.Cmp(want) != 0 {
			x.fail("FastMod", "wrong with aliased operands", map[string]any{"x": dumpInt(v), "p": dumpInt(p), "aliased": true})
			return
		}
		if x.lg != nil && i%30 == 0 {
			x.lg.log(map[string]any{"fn": "FastMod", "x": v.String(), "p": p.String(), "out": ret.String()})
		}
	}
	// one FastMod value re-Set through a history of moduli (fast and slow path, equal and different bit lengths):
	// every Set must leave it exactly as a fresh value Set to the same modulus
	var hist verifhooks.FastMod
	var prevBits uint
	histDesc := []string{}
	for i := 0; i < r.Pick(4000, 60000); i++ {
		var bits uint
		switch rng.IntN(3) {
		case 0:
			bits = uint(61 + rng.IntN(8))
		case 1:
			bits = uint(61 + rng.IntN(300))
		default:
			bits = uint(8 + rng.IntN(2048))
		}
		if prevBits > 0 && rng.IntN(2) == 0 {
			bits = prevBits // same bit length as the modulus before
		}
		var c *big.Int
		if rng.IntN(2) == 0 {
			c = randBig(rng, 1+rng.IntN(40)) // fast path
		} else {
			c = add(pow2(59+uint(rng.IntN(2))), randBig(rng, 30)) // slow path (c >= 2^59), still below 2^(bits-1) for bits >= 62
		}
		p := sub(pow2(bits), add(c, bigOne))
		if p.Sign() <= 0 || uint(p.BitLen()) != bits {
			continue
		}
		if !x.bounded("FastMod", func() {
			hist.Set(p)
			var warm big.Int
			hist.Mod(&warm, add(pow2(3*bits), bi(12345)))
		}) {
			x.fail("FastMod", fmt.Sprintf("Mod does not return after the value was Set again (last moduli bits:c-bits %v, then %d:%d)", histDesc, bits, c.BitLen()), map[string]any{"p": dumpInt(p), "set_history": histDesc, "x": "2^(3*bits)+12345"})
			return
		}
		prevBits = bits
		histDesc = append(histDesc, fmt.Sprintf("%d:%d", bits, c.BitLen()))
		if len(histDesc) > 6 {
			histDesc = histDesc[1:]
		}
		for k := 0; k < 3; k++ {
			v := randBig(rng, int(bits)+1+rng.IntN(2*int(bits)))
			want := new(big.Int).Mod(v, p)
			var ret big.Int
			hist.Mod(&ret, v)
			n++
			if ret.Cmp(want) != 0 {
				x.fail("FastMod", fmt.Sprintf("wrong after the value was Set again (last moduli bits:c-bits %v)", histDesc), map[string]any{"x": dumpInt(v), "p": dumpInt(p), "set_history": histDesc})
				return
			}
		}
	}
	x.count("FastMod", n/10000+1)
	r.Add("evaluations_FastMod", n)
}

// seededReader is a deterministic byte source with a budget.
type seededReader struct {
	rng  *rand.Rand
	left int
}

func (s *seededReader) Read(p []byte) (int, error) {
	if s.left <= 0 {
		return 0, fmt.Errorf("budget exhausted")
	}
	for i := range p {
		p[i] = byte(s.rng.Uint32())
	}
	s.left -= len(p)
	return len(p), nil
}

func (x *c19) randomPrime() {
	r := x.r
	rng := r.Rand("randomprime")
	var n int64
	type sz struct{ start, length uint }
	var sizes []sz
	for s := uint(2); s <= 12; s++ {
		for l := uint(2); l <= 24; l++ {
			sizes = append(sizes, sz{s, l})
		}
	}
	sizes = append(sizes, sz{596, 119}, sz{644, 119}, sz{3, 195}, sz{100, 8}, sz{64, 64}, sz{255, 16})
	for _, s := range sizes {
		reps := r.Pick(8, 200)
		if s.start > 64 {
			reps = r.Pick(6, 60)
		}
		for i := 0; i < reps; i++ {
			budget := 1 << 13
			if s.start > 64 {
				budget = 1 << 20
			}
			rd := &seededReader{rng: rng, left: budget}
			p, err := verifhooks.RandomPrimeInRange(rd, s.start, s.length)
			if err != nil {
				continue // no prime of the required shape found within the byte budget (tiny intervals)
			}
			n++
			lo := pow2(s.start)
			hi := add(lo, pow2(s.length))
			if !p.Go().ProbablyPrime(32) || p.Cmp(lo) < 0 || p.Cmp(hi) > 0 {
				x.fail("RandomPrimeInRange", fmt.Sprintf("start=%d length=%d returned %s (prime=%v, interval [2^%d, 2^%d+2^%d])", s.start, s.length, dumpInt(p), p.Go().ProbablyPrime(32), s.start, s.start, s.length),
					map[string]any{"start": s.start, "length": s.length, "p": dumpInt(p)})
				return
			}
		}
		r.Distinct("RandomPrimeInRange", s.start, s.length)
	}
	if _, err := verifhooks.RandomPrimeInRange(&seededReader{rng: rng, left: 100}, 1, 8); err == nil {
		x.fail("RandomPrimeInRange", "start < 2 accepted", map[string]any{"start": 1})
	}
	x.count("RandomPrimeInRange", n/10+1)
	r.Add("evaluations_RandomPrimeInRange", n)
}

func (x *c19) safePrimes() {
	r := x.r
	var n, n2 int64
	// ProbablySafePrime against a sieve
	const lim = 1 << 16
	sieve := make([]bool, lim)
	for i := 2; i < lim; i++ {
		sieve[i] = true
	}
	for i := 2; i*i < lim; i++ {
		if sieve[i] {
			for j := i * i; j < lim; j += i {
				sieve[j] = false
			}
		}
	}
	for v := 0; v < lim; v++ {
		want := v > 2 && sieve[v] && sieve[(v-1)/2]
		got := safeprime.ProbablySafePrime(bi(int64(v)), 20)
		n2++
		if got != want {
			x.fail("ProbablySafePrime", fmt.Sprintf("ProbablySafePrime(%d) = %v", v, got), map[string]any{"x": v})
			return
		}
	}
	r.Distinct("ProbablySafePrime", "sieve")
	rng := r.Rand("safeprime")
	for i := 0; i < r.Pick(60, 600); i++ {
		// primes whose (p-1)/2 is composite, composites whose (x-1)/2 is prime
		p := nextPrime(randBig(rng, 40+rng.IntN(200)))
		half := new(big.Int).Rsh(p, 1)
		n2++
		if safeprime.ProbablySafePrime(p, 20) != half.Go().ProbablyPrime(32) {
			x.fail("ProbablySafePrime", "wrong verdict for a prime", map[string]any{"x": dumpInt(p)})
			return
		}
		q := nextPrime(randBig(rng, 40+rng.IntN(200)))
		c := add(mul(q, bi(2)), bigOne)
		n2++
		if safeprime.ProbablySafePrime(c, 20) != c.Go().ProbablyPrime(32) {
			x.fail("ProbablySafePrime", "wrong verdict for 2q+1", map[string]any{"x": dumpInt(c)})
			return
		}
	}
	// Generate
	sizes := []int{16, 17, 23, 24, 25, 31, 32, 33, 40, 41, 48, 57, 64, 65, 73, 80, 96, 97, 128, 129, 160, 200, 256}
	for _, s := range sizes {
		reps := r.Pick(3, 30)
		if s > 128 {
			reps = r.Pick(1, 6)
		}
		for i := 0; i < reps; i++ {
			p, err := safeprime.Generate(s, nil)
			n++
			if err != nil || p == nil {
				x.fail("safeprime.Generate", fmt.Sprintf("Generate(%d) failed: %v", s, err), map[string]any{"bits": s})
				return
			}
			half := new(big.Int).Rsh(p, 1)
			if p.BitLen() != s || !p.Go().ProbablyPrime(32) || !half.Go().ProbablyPrime(32) {
				x.fail("safeprime.Generate", fmt.Sprintf("Generate(%d) returned %s (%d bits, prime=%v, half prime=%v)", s, dumpInt(p), p.BitLen(), p.Go().ProbablyPrime(32), half.Go().ProbablyPrime(32)), map[string]any{"bits": s, "p": dumpInt(p)})
				return
			}
		}
		r.Distinct("safeprime.Generate", s)
	}
	x.count("safeprime.Generate", n+100)
	x.count("ProbablySafePrime", n2/100+1)
	r.Add("evaluations_safeprime.Generate", n)
	r.Add("evaluations_ProbablySafePrime", n2)
}

func (x *c19) groupExp() {
	r := x.r
	var n int64
	for _, p := range []int64{23, 47, 59, 83, 107, 167, 179, 227, 263, 347, 359, 383, 467, 479, 503, 563, 587, 719, 839, 863, 887, 983, 1019, 1187, 1283, 1307, 1319, 1367, 1439, 1487, 1523, 1619, 1823, 1907, 2027, 2039} {
		g, ok := zkproof.BuildGroup(bi(p))
		if !ok {
			x.fail("Group.Exp", fmt.Sprintf("BuildGroup(%d) refused a safe prime", p), map[string]any{"p": p})
			return
		}
		q := (p - 1) / 2
		for _, name := range []string{"g", "h"} {
			base := g.Base(name)
			inv := new(big.Int).ModInverse(base, bi(p))
			if inv == nil {
				continue // the fixed generator constant happens to be 0 modulo this tiny prime
			}
			for e := -q + 1; e < q; e++ {
				var ret big.Int
				E := bi(e)
				if !g.Exp(&ret, name, E, bi(p)) {
					x.fail("Group.Exp", "known base name refused", map[string]any{"p": p, "name": name})
					return
				}
				n++
				var want *big.Int
				if e >= 0 {
					want = new(big.Int).Exp(base, bi(e), bi(p))
				} else {
					want = new(big.Int).Exp(inv, bi(-e), bi(p))
				}
				if ret.Cmp(want) != 0 || E.Int64() != e {
					x.fail("Group.Exp", fmt.Sprintf("%s^%d mod %d = %s, expected %s", name, e, p, dumpInt(&ret), dumpInt(want)), map[string]any{"p": p, "name": name, "e": e})
					return
				}
			}
		}
		r.Distinct("Group.Exp", p)
	}
	if _, ok := zkproof.BuildGroup(bi(29)); ok {
		x.fail("Group.Exp", "BuildGroup accepts a prime that is not a safe prime", map[string]any{"p": 29})
	}
	// a large convenient group: 2^787 - 7341
	P := sub(pow2(787), bi(7341))
	g, ok := zkproof.BuildGroup(P)
	if ok {
		rng := r.Rand("groupexp")
		for i := 0; i < r.Pick(60, 1500); i++ {
			e := new(big.Int).Mod(randBig(rng, 800), g.Order)
			if rng.IntN(2) == 0 {
				e.Neg(e)
			}
			if e.CmpAbs(g.Order) >= 0 {
				continue
			}
			for _, name := range []string{"g", "h"} {
				var ret big.Int
				g.Exp(&ret, name, e, P)
				n++
				base := g.Base(name)
				var want *big.Int
				if e.Sign() >= 0 {
					want = new(big.Int).Exp(base, e, P)
				} else {
					want = new(big.Int).Exp(new(big.Int).ModInverse(base, P), new(big.Int).Neg(e), P)
				}
				if ret.Cmp(want) != 0 {
					x.fail("Group.Exp", "wrong in the 787-bit group", map[string]any{"name": name, "e": dumpInt(e)})
					return
				}
			}
		}
		r.Distinct("Group.Exp", "787-bit")
	}
	x.count("Group.Exp", n/100+1)
	r.Add("evaluations_Group.Exp", n)
}

var _ = json.Marshal
