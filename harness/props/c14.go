package props

import (
	"bytes"
	"crypto/sha256"
	"fmt"
	"math/rand/v2"
	"runtime"
	"strings"

	"github.com/fxamacker/cbor"
	"github.com/privacybydesign/gabi"
	"github.com/privacybydesign/gabi/big"
	"github.com/privacybydesign/gabi/gabikeys"
	"github.com/privacybydesign/gabi/rangeproof"

	"verifharness/mon"
	"verifharness/world"
)

func init() {
	Registry["C14"] = &Check{
		Level: "exploration",
		Rule: "honest compositions = builder lists of length 1..4 (each slot disclosure or issuance, with/without non-revocation and range parts) over 1..3 keys (1024-bit fixtures, 2048-bit fixture, toy key with Lstatzk=128) x EVERY subset of the used keys taking part in the keyshare protocol x both session kinds; " +
			"postconditions: no error, ProofP.C equals the user's challenge, the merged list verifies under the matching labels, and every participating proof's secret-key response equals (user+server randomiser) + c*(user+server secret); " +
			"deviations of the second message relative to the committed first: every Value/Commitment/OtherCommitments entry altered, entries reordered/dropped/duplicated/appended, KeyID changed to another known id / unknown id / nil, commitment hash altered/truncated/extended, context omitted or changed, nonce/flag/user response changed; " +
			"non-trivial = the server function was entered; distinct by (composition, participation, deviation) hash; oracle: a response is released only if SHA-256 over the CBOR encoding of the PRESENTED challenge input equals the committed hash and every non-nil key id is known, otherwise error AND nil response",
		Run: runC14,
	}
}

type c14slot struct {
	issuance bool
	key      *world.Key
	nonrev   bool
	rng      bool
}

type c14comp struct {
	slots []c14slot
	part  map[string]bool // participating key names
	issig bool
	seed  uint64
	desc  string
}

func cloneInput(in []gabi.KeyshareUserChallengeInput[string]) []gabi.KeyshareUserChallengeInput[string] {
	out := make([]gabi.KeyshareUserChallengeInput[string], len(in))
	for i, e := range in {
		out[i] = gabi.KeyshareUserChallengeInput[string]{Value: cp(e.Value), Commitment: cp(e.Commitment)}
		if e.KeyID != nil {
			k := *e.KeyID
			out[i].KeyID = &k
		}
		if e.OtherCommitments != nil {
			out[i].OtherCommitments = cloneInts(e.OtherCommitments)
		}
	}
	return out
}

func inputHash(in []gabi.KeyshareUserChallengeInput[string]) []byte {
	b, err := cbor.Marshal(in, cbor.EncOptions{})
	if err != nil {
		return nil
	}
	h := sha256.Sum256(b)
	return h[:]
}

func runC14(r *mon.Run) {
	// an issuer that rotated its key: two of the keys carry the same issuer name and differ in their counter only (within this
	// process; the keyshare protocol identifies keys by the pair)
	ka, kb := world.Fixture("fix1024a"), world.Fixture("fix1024b")
	ka.PK.Issuer, kb.PK.Issuer = "rotating-issuer", "rotating-issuer"
	kb.PK.Counter = ka.PK.Counter + 1
	kb.SK.Counter = kb.PK.Counter
	r.Set("keys_sharing_an_issuer_name", 2)
	keyPool := []string{"toy512z", "fix1024a", "fix1024b"}
	if r.Thorough() {
		keyPool = []string{"toy512z", "fix1024a", "fix1024b", "fix2048a"}
	}
	rng := r.Rand("comps")
	var comps []*c14comp
	maxN := 4
	reps := r.Pick(6, 60)
	for rep := 0; rep < reps; rep++ {
		for n := 1; n <= maxN; n++ {
			for types := 0; types < 1<<n; types++ {
				nk := 1 + rng.IntN(3)
				pool := append([]string{}, keyPool...)
				rng.Shuffle(len(pool), func(a, b int) { pool[a], pool[b] = pool[b], pool[a] })
				pool = pool[:nk]
				slots := make([]c14slot, n)
				used := map[string]bool{}
				var parts []string
				for i := range slots {
					kn := pool[rng.IntN(nk)]
					used[kn] = true
					slots[i] = c14slot{issuance: types&(1<<i) != 0, key: world.Fixture(kn)}
					if !slots[i].issuance {
						slots[i].nonrev = rng.IntN(3) == 0
						slots[i].rng = rng.IntN(3) == 0
					}
					t := "D"
					if slots[i].issuance {
						t = "U"
					}
					if slots[i].nonrev {
						t += "n"
					}
					if slots[i].rng {
						t += "r"
					}
					parts = append(parts, t+"@"+kn)
				}
				var usedList []string
				for _, k := range keyPool {
					if used[k] {
						usedList = append(usedList, k)
					}
				}
				// every subset of the used keys participates
				for mask := 0; mask < 1<<len(usedList); mask++ {
					part := map[string]bool{}
					var pn []string
					for b, k := range usedList {
						if mask&(1<<b) != 0 {
							part[k] = true
							pn = append(pn, k)
						}
					}
					issig := rng.IntN(2) == 0
					comps = append(comps, &c14comp{slots: slots, part: part, issig: issig, seed: rng.Uint64(),
						desc: fmt.Sprintf("[%s] kss-keys=%v issig=%v", strings.Join(parts, " "), pn, issig)})
				}
			}
		}
	}
	r.Set("compositions", len(comps))
	mon.Parallel(len(comps), runtime.NumCPU(), func(i int) {
		c14Run(r, comps[i], i)
	})
	r.FloorAccept("honest", 50)
	r.FloorFam("deviation", 1000)
	r.Floor("deviations that the reference says must be refused", 500, func() int64 { return r.Get("deviations_must_refuse") })
}

func c14Run(r *mon.Run, c *c14comp, idx int) {
	jr := rand.New(rand.NewPCG(c.seed, 14))
	var partKeys []*world.Key
	seen := map[string]bool{}
	for _, s := range c.slots {
		if c.part[s.key.Name] && !seen[s.key.Name] {
			partKeys = append(partKeys, s.key)
			seen[s.key.Name] = true
		}
	}
	kss := newKss(partKeys...)
	user, err := gabi.GenerateSecretAttribute()
	if err != nil {
		panic(err)
	}
	ctx, nonce := freshNonces(jr)
	if idx%4 == 3 {
		// the default context: the response request then goes out without a context (as KeyshareUserResponseRequest
		// builds it) and the server must fall back to the same value the user hashed
		ctx = bi(1)
	}
	var builders gabi.ProofBuilderList
	var pks []*gabikeys.PublicKey
	total := make([]*big.Int, len(c.slots)) // ledger secret per slot
	for i, s := range c.slots {
		pk := s.key.PK
		pks = append(pks, pk)
		participates := c.part[s.key.Name]
		var kssP *big.Int
		total[i] = cp(user)
		if participates {
			kssP = kss.P(s.key)
			total[i] = add(user, kss.secret)
		}
		if s.issuance {
			b, err := gabi.NewCredentialBuilder(pk, ctx, user, randBig(jr, 80), kssP, nil)
			if err != nil {
				r.Eval("honest", "error")
				r.Violation("C14/honest-composition-fails", "NewCredentialBuilder: "+err.Error()+" ("+c.desc+")", map[string]any{"composition": c.desc})
				return
			}
			builders = append(builders, b)
			continue
		}
		ms := []*big.Int{total[i], bi(int64(1000 + jr.IntN(100))), bi(int64(20 + jr.IntN(60))), randBig(jr, 200)}
		var cred *world.Cred
		if s.nonrev {
			rev, e2 := world.NewRev(s.key)
			if e2 != nil {
				panic(e2)
			}
			cred, err = s.key.SignCredRev(ms, rev)
		} else {
			cred, err = s.key.SignCred(ms)
		}
		if err != nil {
			panic(err)
		}
		cred.C.Attributes[0] = cp(user) // the holder only knows its own share
		cred.C.Signature.KeyshareP = kssP
		var stm map[int][]*rangeproof.Statement
		if s.rng {
			st, _ := rangeproof.NewStatement(rangeproof.GreaterOrEqual, bi(18))
			stm = map[int][]*rangeproof.Statement{2: {st}}
		}
		b, err := cred.C.CreateDisclosureProofBuilder([]int{1}, stm, s.nonrev)
		if err != nil {
			r.Eval("honest", "error")
			r.Violation("C14/honest-composition-fails", "CreateDisclosureProofBuilder: "+err.Error()+" ("+c.desc+")", map[string]any{"composition": c.desc})
			return
		}
		builders = append(builders, b)
	}
	r.Distinct("honest", c.desc)
	var t *kssTranscript
	var list gabi.ProofList
	pv, stack := mon.Try(func() {
		if idx%3 == 1 {
			// a first attempt that is abandoned after the user's first message (the server was unreachable): the session is
			// started again on the same builders with fresh randomisers
			abandoned := map[string]*big.Int{"secretkey": randBig(jr, int(gabikeys.DefaultSystemParameters[1024].LmCommit))}
			if _, _, e0 := gabi.KeyshareUserCommitmentRequest(builders, abandoned, kss.keys); e0 != nil {
				err = e0
				return
			}
			r.Add("sessions_restarted_on_the_same_builders", 1)
		}
		t, err = kss.run(builders, ctx, nonce, c.issig)
		if err == nil {
			list, err = kss.merge(builders, t)
		}
	})
	if pv != nil {
		r.Eval("honest", "panic")
		r.Violation("C14/honest-composition-panics", fmt.Sprintf("keyshare protocol panicked: %v at %s (%s)", pv, mon.PanicSite(stack), c.desc), map[string]any{"composition": c.desc})
		return
	}
	if err != nil {
		r.Eval("honest", "error")
		r.Violation("C14/honest-composition-fails", "keyshare protocol failed: "+err.Error()+" ("+c.desc+")", map[string]any{"composition": c.desc})
		return
	}
	if t.proofP.C.Cmp(t.challenge) != 0 {
		r.Violation("C14/server-challenge-differs", "the server's challenge differs from the user's ("+c.desc+")", map[string]any{"composition": c.desc, "user_c": dumpInt(t.challenge), "server_c": dumpInt(t.proofP.C)})
		return
	}
	ok, pvv, _ := verifyList(cloneList(list), pks, ctx, nonce, c.issig, t.labels)
	r.Eval("honest", outcome(ok, pvv))
	if !ok {
		amb := false
		for _, p := range list {
			if d, isD := p.(*gabi.ProofD); isD && d.NonRevocationProof != nil && countSmall(d) >= 2 {
				amb = true
			}
		}
		if amb {
			r.Violation("C14/honest-list-rejected/ambiguous-revocation-index", "jointly computed list rejected: a member with a non-revocation part has >= 2 hidden responses below 2^580 ("+c.desc+")", map[string]any{"composition": c.desc, "list": dumpList(list)})
		} else {
			r.Violation("C14/honest-list-rejected", "the jointly computed proof list does not verify under the matching labels ("+c.desc+")", map[string]any{"composition": c.desc, "list": dumpList(list), "labels": t.labels})
		}
		return
	}
	// ledger: participating proofs prove user+server share with the joint randomiser, the others the user share alone
	for i, p := range list {
		resp := p.SecretKeyResponse()
		wantRand := cp(t.randomizers["secretkey"])
		if c.part[c.slots[i].key.Name] {
			wantRand = add(wantRand, t.kssRandomizer)
		}
		want := add(wantRand, mul(t.challenge, total[i]))
		if resp == nil || resp.Cmp(want) != 0 {
			r.Violation("C14/secret-response-not-total-share", fmt.Sprintf("member %d: secret key response is not (joint randomiser) + c*(user%s share) (%s)", i, map[bool]string{true: "+server", false: ""}[c.part[c.slots[i].key.Name]], c.desc),
				map[string]any{"composition": c.desc, "member": i, "response": dumpInt(resp), "expected": dumpInt(want)})
		}
	}
	// nil labels must fail when both participating and non-participating members are present (different secrets)
	if idx%11 == 0 {
		r.Sample(map[string]any{"composition": c.desc, "labels": t.labels})
	}

	// ---- deviations in the second message ----
	c14Deviations(r, c, kss, t)
}

func c14Deviations(r *mon.Run, c *c14comp, kss *kssState, t *kssTranscript) {
	type dev struct {
		name string
		f    func(req *gabi.KeyshareResponseRequest[string], comm *gabi.KeyshareCommitmentRequest, keys map[string]*gabikeys.PublicKey)
	}
	var devs []dev
	n := len(t.hashInput)
	for i := 0; i < n; i++ {
		i := i
		devs = append(devs,
			dev{fmt.Sprintf("value[%d]+1", i), func(q *gabi.KeyshareResponseRequest[string], _ *gabi.KeyshareCommitmentRequest, _ map[string]*gabikeys.PublicKey) {
				q.UserChallengeInput[i].Value = add(q.UserChallengeInput[i].Value, bigOne)
			}},
			dev{fmt.Sprintf("commitment[%d]+1", i), func(q *gabi.KeyshareResponseRequest[string], _ *gabi.KeyshareCommitmentRequest, _ map[string]*gabikeys.PublicKey) {
				q.UserChallengeInput[i].Commitment = add(q.UserChallengeInput[i].Commitment, bigOne)
			}},
			dev{fmt.Sprintf("value[%d]<->commitment[%d]", i, i), func(q *gabi.KeyshareResponseRequest[string], _ *gabi.KeyshareCommitmentRequest, _ map[string]*gabikeys.PublicKey) {
				e := &q.UserChallengeInput[i]
				e.Value, e.Commitment = e.Commitment, e.Value
			}},
			dev{fmt.Sprintf("keyid[%d]->nil/known", i), func(q *gabi.KeyshareResponseRequest[string], _ *gabi.KeyshareCommitmentRequest, keys map[string]*gabikeys.PublicKey) {
				e := &q.UserChallengeInput[i]
				if e.KeyID != nil {
					e.KeyID = nil
					return
				}
				for k := range keys {
					kk := k
					e.KeyID = &kk
					return
				}
			}},
			dev{fmt.Sprintf("keyid[%d]->unknown", i), func(q *gabi.KeyshareResponseRequest[string], _ *gabi.KeyshareCommitmentRequest, _ map[string]*gabikeys.PublicKey) {
				s := "no-such-key"
				q.UserChallengeInput[i].KeyID = &s
			}},
			dev{fmt.Sprintf("keyid[%d]->other known", i), func(q *gabi.KeyshareResponseRequest[string], _ *gabi.KeyshareCommitmentRequest, keys map[string]*gabikeys.PublicKey) {
				e := &q.UserChallengeInput[i]
				for k := range keys {
					if e.KeyID == nil || *e.KeyID != k {
						kk := k
						e.KeyID = &kk
						return
					}
				}
			}},
			dev{fmt.Sprintf("commitment[%d] + k*N of its key (same residue)", i), func(q *gabi.KeyshareResponseRequest[string], _ *gabi.KeyshareCommitmentRequest, keys map[string]*gabikeys.PublicKey) {
				e := &q.UserChallengeInput[i]
				n := bi(0)
				for _, k := range keys {
					n = k.N
				}
				if e.KeyID != nil && keys[*e.KeyID] != nil {
					n = keys[*e.KeyID].N
				}
				e.Commitment = add(e.Commitment, mul(n, bi(int64(1+i))))
			}},
			dev{fmt.Sprintf("value[%d] + N of its key (same residue)", i), func(q *gabi.KeyshareResponseRequest[string], _ *gabi.KeyshareCommitmentRequest, keys map[string]*gabikeys.PublicKey) {
				e := &q.UserChallengeInput[i]
				n := bi(0)
				for _, k := range keys {
					n = k.N
				}
				if e.KeyID != nil && keys[*e.KeyID] != nil {
					n = keys[*e.KeyID].N
				}
				e.Value = add(e.Value, n)
			}},
			dev{fmt.Sprintf("entry[%d] dropped", i), func(q *gabi.KeyshareResponseRequest[string], _ *gabi.KeyshareCommitmentRequest, _ map[string]*gabikeys.PublicKey) {
				q.UserChallengeInput = append(q.UserChallengeInput[:i:i], q.UserChallengeInput[i+1:]...)
			}},
			dev{fmt.Sprintf("entry[%d] duplicated", i), func(q *gabi.KeyshareResponseRequest[string], _ *gabi.KeyshareCommitmentRequest, _ map[string]*gabikeys.PublicKey) {
				q.UserChallengeInput = append(q.UserChallengeInput, cloneInput(q.UserChallengeInput[i:i+1])...)
			}},
			dev{fmt.Sprintf("othercomms[%d] appended", i), func(q *gabi.KeyshareResponseRequest[string], _ *gabi.KeyshareCommitmentRequest, _ map[string]*gabikeys.PublicKey) {
				q.UserChallengeInput[i].OtherCommitments = append(q.UserChallengeInput[i].OtherCommitments, bi(7))
			}},
			dev{fmt.Sprintf("othercomms[%d] nil<->empty (same encoding)", i), func(q *gabi.KeyshareResponseRequest[string], _ *gabi.KeyshareCommitmentRequest, _ map[string]*gabikeys.PublicKey) {
				e := &q.UserChallengeInput[i]
				if len(e.OtherCommitments) == 0 {
					if e.OtherCommitments == nil {
						e.OtherCommitments = []*big.Int{}
					} else {
						e.OtherCommitments = nil
					}
				}
			}},
		)
		for j := range t.hashInput[i].OtherCommitments {
			j := j
			devs = append(devs,
				dev{fmt.Sprintf("othercomms[%d][%d]+1", i, j), func(q *gabi.KeyshareResponseRequest[string], _ *gabi.KeyshareCommitmentRequest, _ map[string]*gabikeys.PublicKey) {
					q.UserChallengeInput[i].OtherCommitments[j] = add(q.UserChallengeInput[i].OtherCommitments[j], bigOne)
				}},
				dev{fmt.Sprintf("othercomms[%d][%d] dropped", i, j), func(q *gabi.KeyshareResponseRequest[string], _ *gabi.KeyshareCommitmentRequest, _ map[string]*gabikeys.PublicKey) {
					oc := q.UserChallengeInput[i].OtherCommitments
					q.UserChallengeInput[i].OtherCommitments = append(oc[:j:j], oc[j+1:]...)
				}},
			)
			if j > 0 {
				devs = append(devs, dev{fmt.Sprintf("othercomms[%d] swap %d,%d", i, j-1, j), func(q *gabi.KeyshareResponseRequest[string], _ *gabi.KeyshareCommitmentRequest, _ map[string]*gabikeys.PublicKey) {
					oc := q.UserChallengeInput[i].OtherCommitments
					oc[j-1], oc[j] = oc[j], oc[j-1]
				}})
			}
		}
		if i > 0 {
			devs = append(devs, dev{fmt.Sprintf("entries %d,%d swapped", i-1, i), func(q *gabi.KeyshareResponseRequest[string], _ *gabi.KeyshareCommitmentRequest, _ map[string]*gabikeys.PublicKey) {
				q.UserChallengeInput[i-1], q.UserChallengeInput[i] = q.UserChallengeInput[i], q.UserChallengeInput[i-1]
			}})
		}
	}
	devs = append(devs,
		dev{"entry appended", func(q *gabi.KeyshareResponseRequest[string], _ *gabi.KeyshareCommitmentRequest, _ map[string]*gabikeys.PublicKey) {
			q.UserChallengeInput = append(q.UserChallengeInput, gabi.KeyshareUserChallengeInput[string]{Value: bi(3), Commitment: bi(5)})
		}},
		dev{"all entries dropped", func(q *gabi.KeyshareResponseRequest[string], _ *gabi.KeyshareCommitmentRequest, _ map[string]*gabikeys.PublicKey) {
			q.UserChallengeInput = nil
		}},
		dev{"hash byte flipped", func(_ *gabi.KeyshareResponseRequest[string], cm *gabi.KeyshareCommitmentRequest, _ map[string]*gabikeys.PublicKey) {
			cm.HashedUserCommitments[7] ^= 1
		}},
		dev{"hash truncated", func(_ *gabi.KeyshareResponseRequest[string], cm *gabi.KeyshareCommitmentRequest, _ map[string]*gabikeys.PublicKey) {
			cm.HashedUserCommitments = cm.HashedUserCommitments[:16]
		}},
		dev{"hash empty", func(_ *gabi.KeyshareResponseRequest[string], cm *gabi.KeyshareCommitmentRequest, _ map[string]*gabikeys.PublicKey) {
			cm.HashedUserCommitments = nil
		}},
		dev{"hash extended", func(_ *gabi.KeyshareResponseRequest[string], cm *gabi.KeyshareCommitmentRequest, _ map[string]*gabikeys.PublicKey) {
			cm.HashedUserCommitments = append(cm.HashedUserCommitments, 0)
		}},
		// the following do not touch the committed input: the server may answer (with another challenge)
		dev{"context omitted (allowed)", func(q *gabi.KeyshareResponseRequest[string], _ *gabi.KeyshareCommitmentRequest, _ map[string]*gabikeys.PublicKey) {
			q.Context = nil
		}},
		dev{"context changed (allowed)", func(q *gabi.KeyshareResponseRequest[string], _ *gabi.KeyshareCommitmentRequest, _ map[string]*gabikeys.PublicKey) {
			if q.Context == nil {
				q.Context = bi(2)
			} else {
				q.Context = add(q.Context, bigOne)
			}
		}},
		dev{"nonce changed (allowed)", func(q *gabi.KeyshareResponseRequest[string], _ *gabi.KeyshareCommitmentRequest, _ map[string]*gabikeys.PublicKey) {
			q.Nonce = add(q.Nonce, bigOne)
		}},
		dev{"flag flipped (allowed)", func(q *gabi.KeyshareResponseRequest[string], _ *gabi.KeyshareCommitmentRequest, _ map[string]*gabikeys.PublicKey) {
			q.IsSignatureSession = !q.IsSignatureSession
		}},
		dev{"server forgets a key", func(_ *gabi.KeyshareResponseRequest[string], _ *gabi.KeyshareCommitmentRequest, keys map[string]*gabikeys.PublicKey) {
			for k := range keys {
				delete(keys, k)
				return
			}
		}},
	)
	for _, dv := range devs {
		req := t.respReq
		req.UserChallengeInput = cloneInput(t.respReq.UserChallengeInput)
		req.Context, req.Nonce, req.UserResponse = cp(t.respReq.Context), cp(t.respReq.Nonce), cp(t.respReq.UserResponse)
		comm := gabi.KeyshareCommitmentRequest{HashedUserCommitments: append([]byte{}, t.commReq.HashedUserCommitments...)}
		keys := map[string]*gabikeys.PublicKey{}
		for k, v := range kss.keys {
			keys[k] = v
		}
		pv0, _ := mon.Try(func() { dv.f(&req, &comm, keys) })
		if pv0 != nil {
			continue
		}
		// reference decision on exactly what is presented
		allowed := bytes.Equal(inputHash(req.UserChallengeInput), comm.HashedUserCommitments)
		for _, e := range req.UserChallengeInput {
			if e.KeyID != nil && keys[*e.KeyID] == nil {
				allowed = false
			}
		}
		if !allowed {
			r.Add("deviations_must_refuse", 1)
		}
		var p *gabi.ProofP
		var err error
		pv, stack := mon.Try(func() { p, err = gabi.KeyshareResponse(kss.secret, t.kssRandomizer, comm, req, keys) })
		r.Distinct("deviation", c.desc, dv.name)
		switch {
		case pv != nil:
			r.Eval("deviation", "panic")
			r.PanicSeen(mon.PanicSite(stack))
			if allowed {
				continue
			}
		case err != nil:
			r.Eval("deviation", "reject")
		default:
			r.Eval("deviation", "accept")
		}
		rep := map[string]any{"composition": c.desc, "deviation": dv.name}
		if !allowed && pv == nil && (err == nil || p != nil) {
			r.Violation("C14/server-answers-uncommitted-input/"+strings.SplitN(dv.name, "[", 2)[0], fmt.Sprintf("KeyshareResponse released a response (err=%v, response nil=%v) although the presented challenge input does not hash to the committed value or names an unknown key (%s; %s)", err, p == nil, dv.name, c.desc), rep)
		}
		if allowed && pv == nil && err != nil && !strings.Contains(dv.name, "server forgets") {
			r.Violation("C14/server-refuses-committed-input", fmt.Sprintf("KeyshareResponse refuses a second message whose challenge input hashes to the committed value: %v (%s; %s)", err, dv.name, c.desc), rep)
		}
		if err != nil && p != nil {
			r.Violation("C14/error-with-response", "KeyshareResponse returned both an error and a response ("+dv.name+")", rep)
		}
	}
}
