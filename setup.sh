#!/bin/bash
# Offline setup after a fresh restore: pre-build the harness once (warms the Go build cache).
set -e
cd "$(dirname "$(readlink -f "$0")")"
. ./env.sh
mkdir -p .bin evidence
(cd harness && $GO build -tags verif -o ../.bin/vcheck ./cmd/vcheck)
echo "setup ok: $($GO version)"
