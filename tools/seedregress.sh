#!/bin/bash
# tools/seedregress.sh [name-filter]: run every stored seeded change against the check of its property (quick tier); one line per seed.
# Honours VERIF_REPO (a scratch copy of /repo), so it can run inside a `vp run --with-repo` snapshot without touching /repo.
cd "$(dirname "$(readlink -f "$0")")/.."
for d in seeded/*/; do
  n=$(basename "$d")
  [ -n "${1:-}" ] && [[ "$n" != *$1* ]] && continue
  prop=$(python3 -c "import json;m=json.load(open('$d/meta.json'));print(m.get('check') or m['property'])")
  patch="$d/patch.diff"; [ -f "$d/patch.rebased.diff" ] && patch="$d/patch.rebased.diff"
  out=$(timeout 3000 tools/seedtest.sh "$(readlink -f $patch)" "$prop" 2>&1)
  sup=$(python3 -c "import json;print('superseded' if json.load(open('$d/meta.json')).get('superseded') else '')")
  if echo "$out" | grep -q "^VIOLATION"; then st=caught; elif [ -n "$sup" ]; then st="superseded(expected-miss)"; elif echo "$out" | grep -q "DOES NOT APPLY"; then st=NOAPPLY; elif echo "$out" | grep -q "^INCONCLUSIVE"; then st=INCONCLUSIVE; else st=MISSED; fi
  echo "$n $prop $st $(echo "$out" | grep -o 'signature=[^ ]*' | head -2 | tr '\n' ' ')"
done
