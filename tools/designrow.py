#!/usr/bin/env python3
"""tools/designrow.py <row markdown>: append a row to the 'Fourth round' seed table of DESIGN.md"""
import sys
p='/verif/DESIGN.md'
s=open(p).read()
marker='\n\nLesson drawn from both rounds'
assert s.count(marker)==1
s=s.replace(marker,'\n'+sys.argv[1].strip()+marker)
open(p,'w').write(s)
