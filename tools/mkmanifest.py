#!/usr/bin/env python3
"""Regenerates /verif/MANIFEST.json from the table below (single source of truth)."""
import json, os, subprocess
V = os.path.dirname(os.path.dirname(os.path.abspath(__file__)))
props = [json.loads(l) for l in open(os.path.join(V, 'properties.jsonl'))]
# id -> (level, technique, level text, level note, design ref)
CHECKS = {}
def chk(id, level, technique, text, note):
    CHECKS[id] = dict(level=level, technique=technique, text=text, note=note)

exec(open(os.path.join(V, 'tools', 'checks_table.py')).read())

hooks_commits = subprocess.run(['git', '-C', '/repo', 'log', '--format=%H', '--grep=^verif hooks'], capture_output=True, text=True).stdout.split()
m = {
 "version": 1,
 "setup_cmd": "./setup.sh",
 "hooks": {
  "guard": "verif",
  "enable": "go build -tags verif (./check does this on every run, against /repo's working tree via the replace directive in harness/go.mod)",
  "baseline_off_cmd": "cd /repo && . /verif/env.sh && $GO test -vet=off -count=1 -timeout 25m ./...",
  "source_commits": hooks_commits,
  "add_only": True,
 },
 "engines": [
  {"name": "vcheck", "path": "harness/cmd/vcheck", "serves_properties": sorted(CHECKS), "kind_free_text": "Go harness linked against /repo (tag verif): workloads, adversaries with the issuer trapdoor, reference implementations and oracles; race-detector build for C20"},
 ],
 "checks": [],
 "not_applicable": [],
 "notes": "Technique family: runtime monitoring. Every check executes the real gabi code built from /repo's working tree and decides on observed verdicts/values; see DESIGN.md. known_findings.json lists genuine defects (fixed or recorded).",
}
for p in props:
    i = p['id']
    if i in CHECKS:
        c = CHECKS[i]
        m['checks'].append({
         "property_id": i,
         "quick_cmd": f"./check {i} quick",
         "thorough_cmd": f"./check {i} thorough",
         "evidence_file": f"/verif/evidence/{i}.json",
         "replay_cmd_template": f"./check {i} --replay {{path}}",
         "engine": "vcheck",
         "level_claimed": {"category": c['level'], "text": c['text'], "design_ref": f"DESIGN.md section 4, {i}"},
         "level_note": c['note'],
         "technique": c['technique'],
        })
    else:
        m['not_applicable'].append({"property_id": i, "reason": "check not built yet in this round (runtime-monitoring design exists in DESIGN.md section 4); not claimed until its monitor runs silently on the unchanged tree"})
json.dump(m, open(os.path.join(V, 'MANIFEST.json'), 'w'), indent=1)
print("checks:", len(m['checks']), "not_applicable:", len(m['not_applicable']))
