#!/bin/bash
# tools/seedconfirm.sh <seedname> <patch.diff> <demo_test.go> <pkg-dir-relative> <TestRegex>
# Confirms a seeded change in a scratch worktree of /repo HEAD: (1) builds, (2) existing suite passes with the change,
# (3) demo fails with the change, (4) demo passes without it. Prints a summary line; removes the worktree.
set -u
name=$1; patch=$(readlink -f "$2"); demo=$(readlink -f "$3"); pkg=$4; rx=$5
. /verif/env.sh
wt=/tmp/seedconfirm.$$
git -C /repo worktree add -q --detach "$wt" HEAD || exit 2
cd "$wt"
res="seed=$name"
if git apply "$patch" 2>/dev/null; then res="$res apply=ok"; else res="$res apply=FAIL"; echo "$res"; cd /; git -C /repo worktree remove --force "$wt"; exit 1; fi
if $GO build ./... >/dev/null 2>&1; then res="$res build=ok"; else res="$res build=FAIL"; fi
if $GO test -vet=off -count=1 -timeout 25m ./... >/tmp/seedconfirm.suite.$$ 2>&1; then res="$res suite_with_change=pass"; else res="$res suite_with_change=FAIL"; grep -E "^(FAIL|---)" /tmp/seedconfirm.suite.$$ | head -5; fi
cp "$demo" "$pkg/zz_seeded_demo_test.go"
if $GO test -vet=off -count=1 -run "$rx" "./$pkg" >/tmp/seedconfirm.demo1.$$ 2>&1; then res="$res demo_with_change=PASS(unexpected)"; else res="$res demo_with_change=fails"; fi
git apply -R "$patch"
if $GO test -vet=off -count=1 -run "$rx" "./$pkg" >/tmp/seedconfirm.demo2.$$ 2>&1; then res="$res demo_without_change=passes"; else res="$res demo_without_change=FAILS(unexpected)"; tail -5 /tmp/seedconfirm.demo2.$$; fi
echo "$res"
cd /; git -C /repo worktree remove --force "$wt"; rm -f /tmp/seedconfirm.*.$$
