#!/usr/bin/env python3
"""tools/seedstore.py <name> <property> <patch> <demo> <needs> <ran> [detected_by]: store a confirmed seeded change under /verif/seeded/<name>/"""
import sys, os, shutil, json
name, prop, patch, demo, needs, ran = sys.argv[1:7]
det = sys.argv[7] if len(sys.argv) > 7 else ""
d = os.path.join('/verif/seeded', name)
os.makedirs(d, exist_ok=True)
shutil.copy(patch, os.path.join(d, 'patch.diff'))
shutil.copy(demo, os.path.join(d, os.path.basename(demo)))
for extra in ('notes.md', 'demo.md'):
    src = os.path.join(os.path.dirname(patch), extra)
    if os.path.exists(src):
        shutil.copy(src, os.path.join(d, extra))
meta = {"property": prop, "breaks": open(f'/tmp/seedout/{prop}.prop.txt').read().split('\n')[0], "needs_to_manifest": needs,
        "confirmed": ran, "demo": os.path.basename(demo), "detected_by": det, "source": "independent sub-agent given only the property text and a scratch worktree"}
json.dump(meta, open(os.path.join(d, 'meta.json'), 'w'), indent=1)
print("stored", d)
