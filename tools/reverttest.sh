#!/bin/bash
# tools/reverttest.sh <fix.diff> <Cxx> [tier]: temporarily revert a fix: commit in /repo's working tree, run the check, restore.
set -u
patch=$(readlink -f "$1"); id=$2; tier=${3:-quick}
cd /repo || exit 2
if [ -n "$(git status --porcelain --untracked-files=no)" ]; then echo "/repo not clean"; exit 2; fi
if ! git apply -R --3way "$patch" 2>/tmp/reverttest.err; then cat /tmp/reverttest.err | tail -3; echo "REVERSE PATCH DOES NOT APPLY"; git checkout -- . ; git reset -q --hard HEAD; exit 2; fi
git reset -q 2>/dev/null
( cd /verif && ./check "$id" "$tier" ) 2>&1 | grep -E "^(VIOLATION|KNOWN-FINDING|INCONCLUSIVE|C[0-9]+ )|signature=" | cut -c1-300 | head -8
git checkout -- .
git status --porcelain --untracked-files=no | head -3
