#!/bin/bash
# tools/seedtest.sh <patch.diff> <Cxx> [tier]: apply a seeded change to /repo, run the check, undo it.
set -u
patch=$1; id=$2; tier=${3:-quick}
VDIR=$(cd "$(dirname "$(readlink -f "$0")")/.." && pwd)
REPO=${VERIF_REPO:-/repo}
cd "$REPO" || exit 2
if [ -n "$(git status --porcelain --untracked-files=no)" ]; then echo "/repo not clean"; exit 2; fi
if ! git apply --3way "$patch" 2>/tmp/seedtest.err && ! git apply "$patch" 2>>/tmp/seedtest.err; then cat /tmp/seedtest.err; echo "PATCH DOES NOT APPLY"; git reset -q --hard HEAD; exit 2; fi
git reset -q 2>/dev/null
( cd "$VDIR" && ./check "$id" "$tier" ) 2>&1 | grep -E "^(VIOLATION|KNOWN-FINDING|INCONCLUSIVE|C[0-9]+ )|signature=" | head -12
rc=${PIPESTATUS[0]}
git reset -q --hard HEAD
# evidence written by a run against a changed tree is not evidence about /repo: put the committed files back
git -C "$VDIR" checkout -- evidence 2>/dev/null
git status --porcelain --untracked-files=no | head
echo "check exit=$rc"
