#!/bin/bash
# tools/runall.sh [quick|thorough] [seed]: run every registered check, validate evidence, summarise.
tier=${1:-quick}; export VERIF_SEED=${2:-1}
cd "$(dirname "$(readlink -f "$0")")/.."
ids=$(python3 -c "import json;print(' '.join(c['property_id'] for c in json.load(open('MANIFEST.json'))['checks']))")
for id in $ids; do
  s=$(date +%s)
  out=$(./check $id $tier 2>&1); rc=$?
  e=$(( $(date +%s) - s ))
  echo "$id rc=$rc ${e}s $(echo "$out" | grep -E '^(VIOLATION|INCONCLUSIVE)' | head -3 | tr '\n' ' ')"
done
python3-vt - <<'PY'
import json,jsonschema,glob
sch=json.load(open('/root/.vp/EVIDENCE.schema.json'))
bad=0
for f in sorted(glob.glob('evidence/*.json')):
    try: jsonschema.validate(json.load(open(f)),sch)
    except Exception as e: bad+=1; print(f,'INVALID',str(e)[:120])
print("evidence invalid:",bad)
PY
