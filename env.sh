# sourced by ./check and helper scripts: offline Go toolchain for /repo and the harness
export GOTOOLCHAIN=local GOFLAGS=-mod=mod GOPROXY=off GOSUMDB=off
_mc=${GOMODCACHE:-/root/go/pkg/mod}
if [ -x "$_mc/golang.org/toolchain@v0.0.1-go1.26.4.linux-amd64/bin/go" ]; then
  GO="$_mc/golang.org/toolchain@v0.0.1-go1.26.4.linux-amd64/bin/go"
elif command -v go1.26.8 >/dev/null 2>&1; then
  GO=go1.26.8
else
  GO=go
fi
export GO
