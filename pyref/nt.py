#!/usr/bin/env python3
"""Offline second-opinion checker for C19: re-derives recorded helper outputs with Python integers.
Usage: nt.py <log.jsonl>; prints 'checked N mismatches M'."""
import sys, json
if hasattr(sys, "set_int_max_str_digits"):
    sys.set_int_max_str_digits(0)

def jacobi(a, n):
    a %= n
    r = 1
    while a:
        while a % 2 == 0:
            a //= 2
            if n % 8 in (3, 5):
                r = -r
        a, n = n, a
        if a % 4 == 3 and n % 4 == 3:
            r = -r
        a %= n
    return r if n == 1 else 0

def main():
    n = bad = 0
    for line in open(sys.argv[1]):
        rec = json.loads(line)
        fn = rec['fn']
        ok = True
        if fn == 'ModInverse':
            a, m, out = int(rec['a']), int(rec['n']), int(rec['out'])
            ok = out == pow(a, -1, m)
        elif fn == 'LegendreSymbol':
            ok = int(rec['out']) == jacobi(int(rec['a']), int(rec['p']))
        elif fn == 'Crt':
            a, pa, b, pb, out = (int(rec[k]) for k in ('a', 'pa', 'b', 'pb', 'out'))
            ok = 0 <= out < pa * pb and out % pa == a and out % pb == b
        elif fn == 'SumFourSquares':
            ok = sum(int(x) ** 2 for x in rec['out']) == int(rec['n'])
        elif fn == 'FastMod':
            ok = int(rec['out']) == int(rec['x']) % int(rec['p'])
        else:
            continue
        n += 1
        if not ok:
            bad += 1
            if bad <= 5:
                print("MISMATCH", json.dumps(rec)[:300])
    print(f"checked {n} mismatches {bad}")
    sys.exit(1 if bad else 0)

main()
