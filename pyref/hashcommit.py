#!/usr/bin/env python3
"""Offline second-opinion checker for C15: re-derives HashCommit / GetHashNumber / IntHashSha256 outputs recorded by the Go
harness with an independent DER encoder and hashlib. Usage: hashcommit.py <log.jsonl>; prints 'checked N mismatches M'."""
import sys, json, hashlib
if hasattr(sys, "set_int_max_str_digits"):
    sys.set_int_max_str_digits(0)

def der_len(n):
    if n < 128:
        return bytes([n])
    b = n.to_bytes((n.bit_length() + 7) // 8, 'big')
    return bytes([0x80 | len(b)]) + b

def der_int(v):
    if v == 0:
        content = b'\x00'
    else:
        # minimal two's complement
        n = (v.bit_length() // 8) + 1 if v > 0 else ((v + 1).bit_length() // 8) + 1
        content = v.to_bytes(n, 'big', signed=True)
    return b'\x02' + der_len(len(content)) + content

def hash_commit(values, issig):
    body = b''
    if issig:
        body += b'\x01\x01\xff'
    body += der_int(len(values))
    for v in values:
        body += der_int(v)
    seq = b'\x30' + der_len(len(body)) + body
    return int.from_bytes(hashlib.sha256(seq).digest(), 'big')

def get_hash_number(a, b, index, bitlen):
    res, k, ctr = 0, 0, 0
    while k < bitlen:
        vals = [x for x in (a, b) if x is not None] + [index, ctr]
        res += hash_commit(vals, False) << k
        k += 256
        ctr += 1
    return res

def main():
    n = bad = 0
    for line in open(sys.argv[1]):
        rec = json.loads(line)
        n += 1
        if rec['fn'] == 'HashCommit':
            got = hash_commit([int(x) for x in rec['values']], rec['issig'])
        elif rec['fn'] == 'GetHashNumber':
            a = int(rec['a']) if rec['a'] is not None else None
            b = int(rec['b']) if rec['b'] is not None else None
            got = get_hash_number(a, b, rec['index'], rec['bitlen'])
        elif rec['fn'] == 'IntHashSha256':
            got = int.from_bytes(hashlib.sha256(bytes.fromhex(rec['hex'])).digest(), 'big')
        else:
            continue
        if got != int(rec['out']):
            bad += 1
            if bad <= 5:
                print("MISMATCH", json.dumps(rec)[:300])
    print(f"checked {n} mismatches {bad}")
    sys.exit(1 if bad else 0)

main()
